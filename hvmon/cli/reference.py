"""Reference for one input file: the library pipeline read -> preprocess -> process -> write in a fresh
process, with both settings objects freshly loaded from their files.

usage: python -m hvmon.cli.reference <pre.json> <proc.json> <input file> <out.csv> <distribution_mc> <distribution_fn>
"""

import sys


def main(argv):
    pre_f, proc_f, fname, out, dmc, dfn = argv
    import hvsrpy
    from hvsrpy.object_io import read_settings_object_from_file
    pre = read_settings_object_from_file(pre_f)
    proc = read_settings_object_from_file(proc_f)
    recs = hvsrpy.read([[fname]])
    recs = hvsrpy.preprocess(recs, pre)
    hv = hvsrpy.process(recs, proc)
    hvsrpy.write_hvsr_object_to_file(hv, out, distribution_mc=dmc, distribution_fn=dfn)


if __name__ == "__main__":
    main(sys.argv[1:])
