"""Launch the real hvsrpy command line interface, optionally (HVSRPY_VERIF=1) with a probe around
hvsrpy.cli._process_hvsr in the parent and - through fork - in every Pool worker.

The wrapper keeps __module__/__qualname__ and replaces the module attribute, so multiprocessing
pickles the task function by reference exactly as before.  Events are appended to the JSONL file named
by HVSRPY_VERIF_LOG with one O_APPEND write() per line (atomic, so the monitor's log cannot become the
race).  HVSRPY_VERIF_DELAYS="seed:max_ms" injects a per-task sleep *before* the task body (varies which
worker receives which chunk); it never touches the task's arguments.
"""

import functools
import hashlib
import json
import os
import sys
import time


def _install():
    import hvsrpy.cli as C
    orig = C._process_hvsr
    log = os.environ.get("HVSRPY_VERIF_LOG")
    delays = os.environ.get("HVSRPY_VERIF_DELAYS", "")
    state = {"n": 0}

    def emit(rec):
        if not log:
            return
        line = (json.dumps(rec) + "\n").encode()
        fd = os.open(log, os.O_WRONLY | os.O_APPEND | os.O_CREAT, 0o644)
        try:
            os.write(fd, line)
        finally:
            os.close(fd)

    def fft_of(st):
        v = getattr(st, "fft_settings", None)
        return None if v is None else dict(v)

    @functools.wraps(orig)
    def _process_hvsr(fname, preprocessing_settings, processing_settings, settings):
        pos = state["n"]
        state["n"] += 1
        if delays:
            seed, mx = delays.split(":")
            h = int(hashlib.sha1(f"{seed}|{fname}".encode()).hexdigest()[:8], 16)
            time.sleep((h % 1000) / 1000.0 * float(mx) / 1000.0)
        emit({"ev": "call", "pid": os.getpid(), "file": str(fname), "pos": pos, "t": time.monotonic(),
              "pre_id": id(preprocessing_settings), "proc_id": id(processing_settings),
              "proc_fft_before": fft_of(processing_settings), "pre_fft_before": fft_of(preprocessing_settings)})
        try:
            return orig(fname, preprocessing_settings, processing_settings, settings)
        finally:
            emit({"ev": "return", "pid": os.getpid(), "file": str(fname), "pos": pos, "t": time.monotonic(),
                  "proc_fft_after": fft_of(processing_settings)})
            if lines_on:
                reached, totals = linereach.result(repo_root)
                emit({"ev": "lines", "pid": os.getpid(), "reached": reached, "totals": totals})

    C._process_hvsr = _process_hvsr
    # line-reach monitor for the anchored files, inherited by the forked workers
    lines_on = False
    try:
        from hvmon import linereach
        repo_root = os.path.dirname(os.path.dirname(os.path.abspath(C.__file__)))
        lines_on = linereach.start("C19", repo_root)
    except Exception:
        lines_on = False


def main():
    method = os.environ.get("HVSRPY_VERIF_START_METHOD")
    if method:
        # the platform default differs (fork on Linux today; spawn on macOS / Windows and on newer Pythons): workers that
        # are spawned re-import hvsrpy.cli and see nothing the parent set up after import (nor the probe below)
        import multiprocessing
        multiprocessing.set_start_method(method, force=True)
    if os.environ.get("HVSRPY_VERIF") == "1":
        _install()
    from hvsrpy.cli import cli
    cli()


if __name__ == "__main__":
    main()
