"""Seeded generators of signals, recordings, processing configurations and HVSR curve sets."""

import numpy as np

DTS = [0.001, 0.002, 0.004, 0.005, 0.01, 0.02, 1 / 75, 1 / 150, 1 / 300, 0.008, 1 / 128]
SIGNALS = ["white", "coloured", "sinusoids", "impulses", "trend", "am-noise"]
OPERATORS = ["konno_and_ohmachi", "parzen", "savitzky_and_golay", "linear_rectangular",
             "log_rectangular", "linear_triangular", "log_triangular"]
FREQ_METHODS = ["arithmetic_mean", "squared_average", "quadratic_mean", "root_mean_square",
                "effective_amplitude_spectrum", "geometric_mean", "total_horizontal_energy",
                "vector_summation", "maximum_horizontal_value"]
TUKEY = [0.0, 0.05, 0.1, 0.5, 1.0]


def signal(rng, n, family=None):
    family = family or SIGNALS[int(rng.integers(0, len(SIGNALS)))]
    t = np.arange(n)
    if family == "white":
        x = rng.standard_normal(n)
    elif family == "coloured":
        x = np.cumsum(rng.standard_normal(n))
        x = x - np.linspace(x[0], x[-1], n) + 0.3 * rng.standard_normal(n)
    elif family == "sinusoids":
        x = 0.05 * rng.standard_normal(n)
        for _ in range(int(rng.integers(1, 5))):
            x = x + rng.uniform(0.2, 2) * np.sin(2 * np.pi * rng.uniform(0.002, 0.45) * t + rng.uniform(0, 6.28))
    elif family == "impulses":
        x = 0.1 * rng.standard_normal(n)
        for _ in range(int(rng.integers(1, 6))):
            x[int(rng.integers(0, n))] += rng.uniform(-20, 20)
    elif family == "trend":
        x = rng.standard_normal(n) + rng.uniform(-5, 5) + rng.uniform(-3, 3) * t / max(n, 1)
    else:
        x = rng.standard_normal(n) * (1 + 0.8 * np.sin(2 * np.pi * t / max(n, 1) * rng.uniform(0.5, 4)))
    return x


def scale(rng):
    return float(10.0 ** rng.choice([-12, -6, -3, 0, 0, 0, 3, 6, 12])) * float(rng.uniform(0.5, 2))


def recording_arrays(rng, n=None, family=None, amp=None):
    n = int(n if n is not None else rng.choice([16, 50, 200, 512, 1000, 3000, 6001, 12000, 30000, 40000, 70000]))
    amp = scale(rng) if amp is None else amp
    fam = family or SIGNALS[int(rng.integers(0, len(SIGNALS)))]
    return as_stored([amp * rng.uniform(0.3, 3) * signal(rng, n, fam) for _ in range(3)])


def make_recording(ns, ew, vt, dt, degrees_from_north=0.0, meta=None):
    import hvsrpy
    # the documented signature is (ns, ew, vt, degrees_from_north=0., meta=None): two thirds of the recordings are built
    # with the orientation (and the metadata) given by position, the others by keyword (decided from the first sample, so
    # that a replayed case makes the same choice)
    first = np.asarray(ns, dtype=float).ravel()[:1]
    pick = int((abs(first[0]) % 1.0) * 1e6) % 3 if first.size and np.isfinite(first[0]) else 0
    if pick == 1:
        return hvsrpy.SeismicRecording3C(hvsrpy.TimeSeries(ns, dt), hvsrpy.TimeSeries(ew, dt), hvsrpy.TimeSeries(vt, dt),
                                         degrees_from_north, meta)
    if pick == 2:
        return hvsrpy.SeismicRecording3C(hvsrpy.TimeSeries(ns, dt), hvsrpy.TimeSeries(ew, dt), hvsrpy.TimeSeries(vt, dt),
                                         degrees_from_north, meta=meta)
    return hvsrpy.SeismicRecording3C(hvsrpy.TimeSeries(ns, dt), hvsrpy.TimeSeries(ew, dt),
                                     hvsrpy.TimeSeries(vt, dt), degrees_from_north=degrees_from_north, meta=meta)


def bandwidth(rng, op, fmax):
    if op == "konno_and_ohmachi":
        return float(rng.choice([10., 20., 40., 40., 80., float(rng.uniform(5, 150))]))
    if op == "savitzky_and_golay":
        return int(rng.choice([3, 5, 7, 9, 11, 15, 21]))
    if op in ("parzen", "linear_rectangular", "linear_triangular"):
        return float(fmax * 10 ** rng.uniform(-2.2, -0.7))
    return float(10 ** rng.uniform(-1.5, -0.3))


def centre_frequencies(rng, dt, n_fft, kind=None):
    fnyq = 0.5 / dt
    df = 1.0 / (n_fft * dt)
    kind = kind or rng.choice(["log", "linear", "on-grid", "off-grid", "single", "high"])
    k = int(rng.integers(2, 40))
    if kind == "log":
        return np.geomspace(fnyq * 10 ** rng.uniform(-3, -1.5), fnyq * rng.uniform(0.2, 0.95), k)
    if kind == "linear":
        return np.linspace(fnyq * 0.01, fnyq * rng.uniform(0.3, 0.95), k)
    if kind == "on-grid":
        idx = np.sort(rng.choice(np.arange(20, int(0.9 * n_fft / 2)), size=k, replace=False))
        return idx * df
    if kind == "off-grid":
        return np.sort(rng.uniform(fnyq * 0.005, fnyq * 0.95, k))
    if kind == "single":
        return np.array([float(rng.uniform(fnyq * 0.01, fnyq * 0.9))])
    return np.sort(rng.uniform(fnyq * 0.6, fnyq * (1 - 1e-6), k))


def nextpow2(n, minimum=2 ** 15):
    p = minimum
    while p <= n:
        p *= 2
    return p


def smoothing_dict(rng, dt, n_fft, op=None, fc_kind=None):
    op = op or OPERATORS[int(rng.integers(0, 7))]
    fcs = centre_frequencies(rng, dt, n_fft, fc_kind)
    # requested centre frequencies need not be ascending
    r = rng.random()
    if r < 0.12:
        fcs = fcs[::-1].copy()
    elif r < 0.24:
        fcs = fcs[rng.permutation(fcs.size)]
    elif r < 0.3 and fcs.size >= 2:
        i = int(rng.integers(0, fcs.size - 1))
        fcs = fcs.copy()
        fcs[i], fcs[i + 1] = fcs[i + 1], fcs[i]
    return dict(operator=op, bandwidth=bandwidth(rng, op, 0.5 / dt), center_frequencies_in_hz=fcs)


# -- HVSR curve sets ------------------------------------------------------------------------
def curve_set(rng, n_curves=None, n_freq=None, kind=None, grid=None):
    """(frequency, amplitude[n_curves, n_freq]) of strictly positive curves with peaks."""
    n_curves = int(n_curves if n_curves is not None else rng.integers(2, 40))
    n_freq = int(n_freq if n_freq is not None else rng.choice([16, 32, 64, 128, 256]))
    grid = grid or rng.choice(["log", "linear"])
    if grid == "log":
        f = np.geomspace(10 ** rng.uniform(-1.3, -0.3), 10 ** rng.uniform(0.8, 1.7), n_freq)
    else:
        f = np.linspace(rng.uniform(0.05, 0.5), rng.uniform(8, 40), n_freq)
    kind = kind or rng.choice(["peaked", "peaked", "multi", "noisy", "some-flat", "outliers"])
    lf = np.log(f)
    f0 = np.exp(rng.uniform(lf[2], lf[-3]))
    amp = np.empty((n_curves, n_freq))
    for i in range(n_curves):
        fi = f0 * np.exp(rng.normal(0, rng.choice([0.02, 0.1, 0.3])))
        if kind == "outliers" and rng.random() < 0.25:
            fi = np.exp(rng.uniform(lf[1], lf[-2]))
        a = 1.0 + rng.uniform(1, 6) * np.exp(-0.5 * ((lf - np.log(fi)) / rng.uniform(0.08, 0.4)) ** 2)
        if kind in ("multi", "outliers"):
            for _ in range(int(rng.integers(1, 3))):
                fj = np.exp(rng.uniform(lf[1], lf[-2]))
                a += rng.uniform(0.3, 3) * np.exp(-0.5 * ((lf - np.log(fj)) / rng.uniform(0.05, 0.3)) ** 2)
        if kind == "noisy":
            a *= np.exp(rng.normal(0, 0.08, n_freq))
        if kind == "some-flat" and rng.random() < 0.25:
            a = np.full(n_freq, rng.uniform(0.5, 3)) if rng.random() < 0.5 else np.linspace(1, rng.uniform(1.5, 4), n_freq)
        amp[i] = a
    return f, amp, str(kind)


def maybe_large(rng, ctx, normal, large, p_quick=0.01, p_thorough=0.03):
    """`normal`, or - now and then - a size from `large`: sizes beyond the thresholds at which implementations switch
    strategy (blocks of 2^10 .. 2^20 samples, hundreds to thousands of windows / recordings / grid points).  Counted, so
    that the evidence shows how many such cases ran."""
    p = p_thorough if getattr(ctx, "tier", "quick") == "thorough" else p_quick
    hit = bool(rng.random() < p)
    # ... and, so that a run of a given length always holds its share of them whatever the seed: every round(1/p)-th case
    hit = hit or every_nth(ctx, p)
    if hit:
        ctx.count("large_size_cases")
        return int(rng.choice(large)), True
    return normal, False


def every_nth(ctx, p):
    """True for the case indices congruent to a fixed phase modulo round(1/p) (replays by index like everything else)."""
    idx = getattr(ctx, "_idx", None)
    stride = max(2, int(round(1.0 / max(p, 1e-9))))
    return idx is not None and idx >= 0 and idx % stride == stride // 3


# -- the FORM of array arguments (values unchanged) ---------------------------------------------------------------
# A caller may hold its samples / curves as a strided view, a read-only array, a column of a table, a big-endian array
# read from a file, a list ...: the library documents "ndarray / iterable of floats" and converts on entry.  For a share of
# the cases of every check the harness hands the arrays it built to hvsrpy's constructors in another form with the same
# values, so that every oracle stays what it is.

FORM_NAMES_1D = ["strided-view", "read-only", "column-of-a-table", "big-endian", "list", "tuple", "negative-stride", "memoryview-backed"]
FORM_NAMES_2D = ["fortran-order", "read-only", "rows-of-a-larger-array", "big-endian", "list-of-lists", "transposed-view", "list-of-arrays"]


_ACTIVE = None          # the ArgumentForms in force for the current case, if any


def as_stored(arrays):
    """Samples as a single-precision file stores them: when the current case varies the argument forms (and drew
    'single precision'), the arrays a monitor has just built are rounded to values a float32 holds exactly - still as
    float64 arrays, so the monitor's own model is unaffected - and `reform` may then hand them over as float32 arrays."""
    if _ACTIVE is None or not _ACTIVE.single:
        return arrays
    if isinstance(arrays, np.ndarray):
        return arrays.astype(np.float32).astype(np.float64)
    return type(arrays)(a.astype(np.float32).astype(np.float64) if isinstance(a, np.ndarray) and a.dtype == np.float64 else a
                        for a in arrays)


def reform(rng, x, arrays_only=False):
    """The same values in another array form; returns (value, form name).  arrays_only: ndarray forms only (for
    parameters documented as ndarray rather than as iterable)."""
    if arrays_only:
        for _ in range(8):
            v, name = reform(rng, x)
            if isinstance(v, np.ndarray):
                return v, name
        return x, "as-given"
    a = np.asarray(x)
    if a.dtype != np.float64 or a.size == 0 or a.ndim not in (1, 2):
        return x, "as-given"
    if _ACTIVE is not None and _ACTIVE.single and rng.random() < 0.7:
        with np.errstate(all="ignore"):
            a32 = a.astype(np.float32)
            if bool(np.all(a32.astype(np.float64) == a)):
                if bool(np.all(a == np.round(a))) and float(np.max(np.abs(a))) < 2 ** 31 and rng.random() < 0.3:
                    return a.astype(np.int32), "int32"
                return a32, "float32"
    if a.ndim == 1:
        k = int(rng.integers(0, len(FORM_NAMES_1D)))
        name = FORM_NAMES_1D[k]
        if name in ("list", "tuple") and a.size > 50000:
            name = "strided-view"
        if name == "strided-view":
            buf = np.full(a.size * 2, np.nan)
            buf[::2] = a
            return buf[::2], name
        if name == "read-only":
            b = a.copy()
            b.flags.writeable = False
            return b, name
        if name == "column-of-a-table":
            tab = np.full((a.size, 3), np.nan)
            tab[:, 1] = a
            return tab[:, 1], name
        if name == "big-endian":
            return a.astype(">f8"), name
        if name == "list":
            return a.tolist(), name
        if name == "tuple":
            return tuple(a.tolist()), name
        if name == "negative-stride":
            return a[::-1].copy()[::-1], name
        return np.frombuffer(memoryview(a.tobytes()), dtype=np.float64), name          # read-only, does not own its data
    k = int(rng.integers(0, len(FORM_NAMES_2D)))
    name = FORM_NAMES_2D[k]
    if name in ("list-of-lists",) and a.size > 50000:
        name = "fortran-order"
    if name == "fortran-order":
        return np.asfortranarray(a), name
    if name == "read-only":
        b = a.copy()
        b.flags.writeable = False
        return b, name
    if name == "rows-of-a-larger-array":
        big = np.full((a.shape[0] * 2, a.shape[1] + 2), np.nan)
        big[::2, 1:-1] = a
        return big[::2, 1:-1], name
    if name == "big-endian":
        return a.astype(">f8"), name
    if name == "list-of-lists":
        return a.tolist(), name
    if name == "transposed-view":
        return np.ascontiguousarray(a.T).T, name
    return [row.copy() for row in a], name


class ArgumentForms:
    """While active, the array arguments that the HARNESS (modules under hvmon) passes to the constructors of
    TimeSeries / HvsrCurve / HvsrTraditional / HvsrDiffuseField arrive in another form.  Calls made by the library
    itself are left alone."""

    def __init__(self, rng, ctx=None):
        self.rng, self.ctx, self.saved = rng, ctx, []
        self.single = bool(rng.random() < 0.5)

    def _wrap(self, cls, positions):
        import functools
        import sys
        orig = cls.__dict__.get("__init__")
        if orig is None:               # inherited: the base class is wrapped
            return
        outer = self

        @functools.wraps(orig)
        def init(obj, *args, **kwargs):
            caller = sys._getframe(1).f_globals.get("__name__", "")
            if caller.startswith("hvmon"):
                args = list(args)
                for pos, key in positions:
                    if pos < len(args):
                        args[pos], name = reform(outer.rng, args[pos])
                    elif key in kwargs:
                        kwargs[key], name = reform(outer.rng, kwargs[key])
                    else:
                        continue
                    if outer.ctx is not None and name != "as-given":
                        outer.ctx.count("constructor_arguments_in_another_array_form")
                        outer.ctx.count("array_form:" + name)
            return orig(obj, *args, **kwargs)
        self.saved.append((cls, orig))
        cls.__init__ = init

    def __enter__(self):
        import hvsrpy
        global _ACTIVE
        _ACTIVE = self
        self._wrap(hvsrpy.TimeSeries, [(0, "amplitude")])
        self._wrap(hvsrpy.HvsrCurve, [(0, "frequency"), (1, "amplitude")])
        self._wrap(hvsrpy.HvsrTraditional, [(0, "frequency"), (1, "amplitude")])
        self._wrap(hvsrpy.HvsrDiffuseField, [(0, "frequency"), (1, "amplitude")])
        return self

    def __exit__(self, *exc):
        global _ACTIVE
        _ACTIVE = None
        for cls, orig in reversed(self.saved):
            cls.__init__ = orig
        self.saved = []
        return False


def recreate_in_place(rng, obj):
    """Give a result object the state of a copy.deepcopy / pickle round trip of itself (what an object returned by a
    worker process, or a copy kept aside, is made of: no array of it is a view of another any more), keeping the
    object's identity so that the harness's references stay valid.  Returns the name of the route taken."""
    import copy
    import pickle
    how = str(rng.choice(["copy.deepcopy", "pickle"]))

    def one(o):
        new = copy.deepcopy(o) if how == "copy.deepcopy" else pickle.loads(pickle.dumps(o))
        o.__dict__.clear()
        o.__dict__.update(new.__dict__)
    inner = getattr(obj, "hvsrs", None)
    if inner is not None:
        for h in inner:
            one(h)
    else:
        one(obj)
    return how


SCALAR_TYPES = ["float", "int", "float64", "int64", "int32", "int16", "uint8", "int8", "float32", "float16", "zero-dim-array"]


def scalar_form(rng, v, name=None, allow=None):
    """The number v as another numeric type that holds it EXACTLY (else as the Python float given)."""
    v = float(v)
    types = allow or SCALAR_TYPES
    name = name or types[int(rng.integers(0, len(types)))]
    integral = v == int(v) if np.isfinite(v) else False
    if name == "int" and integral:
        return int(v), name
    if name == "float64":
        return np.float64(v), name
    if name in ("int64", "int32", "int16", "int8", "uint8") and integral and np.iinfo(name).min <= v <= np.iinfo(name).max:
        return np.dtype(name).type(int(v)), name
    if name in ("float32", "float16") and float(np.dtype(name).type(v)) == v:
        return np.dtype(name).type(v), name
    if name == "zero-dim-array":
        return np.array(v), name
    return v, "float"


def vector_dtype_form(rng, x, name=None):
    """A 1-D float vector as an array of another dtype that holds every entry exactly (else unchanged)."""
    x = np.asarray(x, dtype=float)
    name = name or str(rng.choice(["float64", "int64", "int32", "int16", "uint8", "float32", "list-of-int", "tuple-of-float"]))
    integral = bool(np.all(x == np.round(x)))
    if name in ("int64", "int32", "int16", "uint8") and integral and np.iinfo(name).min <= x.min() and x.max() <= np.iinfo(name).max:
        return x.astype(name), name
    if name == "float32" and bool(np.all(x.astype(np.float32).astype(float) == x)):
        return x.astype(np.float32), name
    if name == "list-of-int" and integral:
        return [int(v) for v in x], name
    if name == "tuple-of-float":
        return tuple(float(v) for v in x), name
    return x, "float64"
