"""Seeded generators of signals, recordings, processing configurations and HVSR curve sets."""

import numpy as np

DTS = [0.001, 0.002, 0.004, 0.005, 0.01, 0.02, 1 / 75, 1 / 150, 1 / 300, 0.008, 1 / 128]
SIGNALS = ["white", "coloured", "sinusoids", "impulses", "trend", "am-noise"]
OPERATORS = ["konno_and_ohmachi", "parzen", "savitzky_and_golay", "linear_rectangular",
             "log_rectangular", "linear_triangular", "log_triangular"]
FREQ_METHODS = ["arithmetic_mean", "squared_average", "quadratic_mean", "root_mean_square",
                "effective_amplitude_spectrum", "geometric_mean", "total_horizontal_energy",
                "vector_summation", "maximum_horizontal_value"]
TUKEY = [0.0, 0.05, 0.1, 0.5, 1.0]


def signal(rng, n, family=None):
    family = family or SIGNALS[int(rng.integers(0, len(SIGNALS)))]
    t = np.arange(n)
    if family == "white":
        x = rng.standard_normal(n)
    elif family == "coloured":
        x = np.cumsum(rng.standard_normal(n))
        x = x - np.linspace(x[0], x[-1], n) + 0.3 * rng.standard_normal(n)
    elif family == "sinusoids":
        x = 0.05 * rng.standard_normal(n)
        for _ in range(int(rng.integers(1, 5))):
            x = x + rng.uniform(0.2, 2) * np.sin(2 * np.pi * rng.uniform(0.002, 0.45) * t + rng.uniform(0, 6.28))
    elif family == "impulses":
        x = 0.1 * rng.standard_normal(n)
        for _ in range(int(rng.integers(1, 6))):
            x[int(rng.integers(0, n))] += rng.uniform(-20, 20)
    elif family == "trend":
        x = rng.standard_normal(n) + rng.uniform(-5, 5) + rng.uniform(-3, 3) * t / max(n, 1)
    else:
        x = rng.standard_normal(n) * (1 + 0.8 * np.sin(2 * np.pi * t / max(n, 1) * rng.uniform(0.5, 4)))
    return x


def scale(rng):
    return float(10.0 ** rng.choice([-12, -6, -3, 0, 0, 0, 3, 6, 12])) * float(rng.uniform(0.5, 2))


def recording_arrays(rng, n=None, family=None, amp=None):
    n = int(n if n is not None else rng.choice([16, 50, 200, 512, 1000, 3000, 6001, 12000, 30000, 40000, 70000]))
    amp = scale(rng) if amp is None else amp
    fam = family or SIGNALS[int(rng.integers(0, len(SIGNALS)))]
    return [amp * rng.uniform(0.3, 3) * signal(rng, n, fam) for _ in range(3)]


def make_recording(ns, ew, vt, dt, degrees_from_north=0.0, meta=None):
    import hvsrpy
    return hvsrpy.SeismicRecording3C(hvsrpy.TimeSeries(ns, dt), hvsrpy.TimeSeries(ew, dt),
                                     hvsrpy.TimeSeries(vt, dt), degrees_from_north=degrees_from_north, meta=meta)


def bandwidth(rng, op, fmax):
    if op == "konno_and_ohmachi":
        return float(rng.choice([10., 20., 40., 40., 80., float(rng.uniform(5, 150))]))
    if op == "savitzky_and_golay":
        return int(rng.choice([3, 5, 7, 9, 11, 15, 21]))
    if op in ("parzen", "linear_rectangular", "linear_triangular"):
        return float(fmax * 10 ** rng.uniform(-2.2, -0.7))
    return float(10 ** rng.uniform(-1.5, -0.3))


def centre_frequencies(rng, dt, n_fft, kind=None):
    fnyq = 0.5 / dt
    df = 1.0 / (n_fft * dt)
    kind = kind or rng.choice(["log", "linear", "on-grid", "off-grid", "single", "high"])
    k = int(rng.integers(2, 40))
    if kind == "log":
        return np.geomspace(fnyq * 10 ** rng.uniform(-3, -1.5), fnyq * rng.uniform(0.2, 0.95), k)
    if kind == "linear":
        return np.linspace(fnyq * 0.01, fnyq * rng.uniform(0.3, 0.95), k)
    if kind == "on-grid":
        idx = np.sort(rng.choice(np.arange(20, int(0.9 * n_fft / 2)), size=k, replace=False))
        return idx * df
    if kind == "off-grid":
        return np.sort(rng.uniform(fnyq * 0.005, fnyq * 0.95, k))
    if kind == "single":
        return np.array([float(rng.uniform(fnyq * 0.01, fnyq * 0.9))])
    return np.sort(rng.uniform(fnyq * 0.6, fnyq * (1 - 1e-6), k))


def nextpow2(n, minimum=2 ** 15):
    p = minimum
    while p <= n:
        p *= 2
    return p


def smoothing_dict(rng, dt, n_fft, op=None, fc_kind=None):
    op = op or OPERATORS[int(rng.integers(0, 7))]
    fcs = centre_frequencies(rng, dt, n_fft, fc_kind)
    # requested centre frequencies need not be ascending
    r = rng.random()
    if r < 0.12:
        fcs = fcs[::-1].copy()
    elif r < 0.24:
        fcs = fcs[rng.permutation(fcs.size)]
    elif r < 0.3 and fcs.size >= 2:
        i = int(rng.integers(0, fcs.size - 1))
        fcs = fcs.copy()
        fcs[i], fcs[i + 1] = fcs[i + 1], fcs[i]
    return dict(operator=op, bandwidth=bandwidth(rng, op, 0.5 / dt), center_frequencies_in_hz=fcs)


# -- HVSR curve sets ------------------------------------------------------------------------
def curve_set(rng, n_curves=None, n_freq=None, kind=None, grid=None):
    """(frequency, amplitude[n_curves, n_freq]) of strictly positive curves with peaks."""
    n_curves = int(n_curves if n_curves is not None else rng.integers(2, 40))
    n_freq = int(n_freq if n_freq is not None else rng.choice([16, 32, 64, 128, 256]))
    grid = grid or rng.choice(["log", "linear"])
    if grid == "log":
        f = np.geomspace(10 ** rng.uniform(-1.3, -0.3), 10 ** rng.uniform(0.8, 1.7), n_freq)
    else:
        f = np.linspace(rng.uniform(0.05, 0.5), rng.uniform(8, 40), n_freq)
    kind = kind or rng.choice(["peaked", "peaked", "multi", "noisy", "some-flat", "outliers"])
    lf = np.log(f)
    f0 = np.exp(rng.uniform(lf[2], lf[-3]))
    amp = np.empty((n_curves, n_freq))
    for i in range(n_curves):
        fi = f0 * np.exp(rng.normal(0, rng.choice([0.02, 0.1, 0.3])))
        if kind == "outliers" and rng.random() < 0.25:
            fi = np.exp(rng.uniform(lf[1], lf[-2]))
        a = 1.0 + rng.uniform(1, 6) * np.exp(-0.5 * ((lf - np.log(fi)) / rng.uniform(0.08, 0.4)) ** 2)
        if kind in ("multi", "outliers"):
            for _ in range(int(rng.integers(1, 3))):
                fj = np.exp(rng.uniform(lf[1], lf[-2]))
                a += rng.uniform(0.3, 3) * np.exp(-0.5 * ((lf - np.log(fj)) / rng.uniform(0.05, 0.3)) ** 2)
        if kind == "noisy":
            a *= np.exp(rng.normal(0, 0.08, n_freq))
        if kind == "some-flat" and rng.random() < 0.25:
            a = np.full(n_freq, rng.uniform(0.5, 3)) if rng.random() < 0.5 else np.linspace(1, rng.uniform(1.5, 4), n_freq)
        amp[i] = a
    return f, amp, str(kind)


def maybe_large(rng, ctx, normal, large, p_quick=0.01, p_thorough=0.03):
    """`normal`, or - now and then - a size from `large`: sizes beyond the thresholds at which implementations switch
    strategy (blocks of 2^10 .. 2^20 samples, hundreds to thousands of windows / recordings / grid points).  Counted, so
    that the evidence shows how many such cases ran."""
    p = p_thorough if getattr(ctx, "tier", "quick") == "thorough" else p_quick
    if rng.random() < p:
        ctx.count("large_size_cases")
        return int(rng.choice(large)), True
    return normal, False
