"""Writers (and independent parsers) for the seismic file formats hvsrpy reads - used by monitor C07.

The binary formats (miniSEED, SAC, GCF) are written by obspy, which is the trusted base: every file is
read back with obspy before it is handed to hvsrpy (``obspy_readback``).  The text formats (SAF,
MiniShark, PEER) are written here following the headers the readers of hvsrpy look for; the parsers at
the end are written independently of hvsrpy's regular expressions (line/column based) and are used on
the real example files of the repository.
"""

import struct
import warnings

import numpy as np

# --------------------------------------------------------------------------------------------------
# obspy formats
# --------------------------------------------------------------------------------------------------


def make_trace(data, channel, fs, station="STN1", network="UT", start=None):
    import obspy
    tr = obspy.Trace(data=np.ascontiguousarray(data))
    tr.stats.network = network
    tr.stats.station = station
    tr.stats.channel = channel
    tr.stats.sampling_rate = fs
    tr.stats.starttime = start if start is not None else obspy.UTCDateTime(2020, 1, 1)
    return tr


MSEED_DTYPES = {"INT32": np.int32, "STEIM1": np.int32, "STEIM2": np.int32, "FLOAT32": np.float32, "FLOAT64": np.float64}


def write_mseed(path, traces, fs, encoding="INT32", reclen=4096, byteorder=">"):
    """traces: [(channel, array)] written in that order into ONE miniSEED file."""
    import obspy
    st = obspy.Stream([make_trace(np.asarray(x, dtype=MSEED_DTYPES[encoding]), ch, fs) for ch, x in traces])
    with warnings.catch_warnings():
        warnings.simplefilter("ignore")
        st.write(path, format="MSEED", encoding=encoding, reclen=reclen, byteorder=byteorder)


def write_sac(path, channel, data, fs, byteorder="<"):
    tr = make_trace(np.asarray(data, dtype=np.float32), channel, fs)
    with warnings.catch_warnings():
        warnings.simplefilter("ignore")
        tr.write(path, format="SAC", byteorder=byteorder)


def write_gcf(path, traces, fs):
    """traces: [(channel, int32 array)] written in that order into ONE GCF file."""
    import obspy
    st = obspy.Stream([make_trace(np.asarray(x, dtype=np.int32), ch, fs) for ch, x in traces])
    with warnings.catch_warnings():
        warnings.simplefilter("ignore")
        st.write(path, format="GCF")


def obspy_readback(path, fmt):
    """[(channel, float64 samples, delta)] in file order, read by obspy itself with the format forced."""
    import obspy
    with warnings.catch_warnings():
        warnings.simplefilter("ignore")
        st = obspy.read(path, format=fmt)
    return [(str(tr.stats.channel), np.array(tr.data, dtype=np.float64), float(tr.stats.delta)) for tr in st]


def patch_sac_npts(path, byteorder, new_npts):
    """Overwrite the NPTS header word (integer header word 9 after the 70 float words)."""
    with open(path, "r+b") as f:
        f.seek(4 * 70 + 4 * 9)
        f.write(struct.pack(byteorder + "i", int(new_npts)))


# --------------------------------------------------------------------------------------------------
# SAF
# --------------------------------------------------------------------------------------------------

def write_saf(path, columns, ch_ids, fs, north_rot, eol="\n", ndat=None, ids_written=None, ncols=3, rich_header=True, id_line_order=None):
    """columns: the three integer arrays in FILE COLUMN order; ch_ids: e.g. ("V","N","E") = CH0..CH2_ID.

    ndat overrides the NDAT header (corrupted variants); ids_written overrides the CHn_ID lines that are
    written (a list of (index, letter)); ncols < 3 drops columns from the rows."""
    n = len(columns[0])
    ndat = n if ndat is None else ndat
    lines = ["SESAME ASCII data format (saf) v. 1    (this line must not be modified)",
             f"SAMP_FREQ = {fs}" if isinstance(fs, str) else f"SAMP_FREQ = {int(fs)}",       # (a str is written as given: "100.0", "62.5")
             f"NDAT = {int(ndat):010d}" if rich_header else f"NDAT = {int(ndat)}"]     # the real example pads with zeros
    if rich_header:
        lines += ["START_TIME = 2021 11 22 13 31 10.000",
                  "SENSOR_TYPE = Velocity",
                  "# a comment line",
                  "STA_CODE = HVMON-07"]
    if north_rot is not None:
        # (whole degrees as an integer; decimal / negative orientations as written)
        lines.append(f"NORTH_ROT = {int(north_rot)}" if float(north_rot) == int(north_rot) and north_rot >= 0 else f"NORTH_ROT = {north_rot}")
    lines.append("UNITS = Counts")
    ids = list(enumerate(ch_ids)) if ids_written is None else ids_written
    if id_line_order is not None:            # header keywords may come in any order: the CHn_ID lines need not ascend
        ids = [ids[k] for k in id_line_order]
    for i, letter in ids:
        lines.append(f"CH{i}_ID = {letter}")
    lines.append("####--------------------------------")
    cols = [np.asarray(c).astype(np.int64) for c in columns[:ncols]]
    rows = [" ".join(str(int(v)) for v in row) for row in zip(*cols)]
    text = eol.join(lines + rows) + eol
    with open(path, "wb") as f:
        f.write(text.encode("ascii"))


def parse_saf(path):
    """Independent parse (line based): returns dict(fs, ndat, north_rot, ids{letter: column}, data (n,3) int64)."""
    with open(path, "rb") as f:
        raw = f.read().decode("ascii")
    lines = raw.replace("\r\n", "\n").split("\n")
    out = {"ids": {}, "north_rot": None}
    body_at = None
    for k, ln in enumerate(lines):
        if ln.startswith("####"):
            body_at = k + 1
            break
        if "=" in ln and not ln.lstrip().startswith("#"):
            key, val = (s.strip() for s in ln.split("=", 1))
            if key == "SAMP_FREQ":
                out["fs"] = float(val)
            elif key == "NDAT":
                out["ndat"] = int(val)
            elif key == "NORTH_ROT":
                out["north_rot"] = float(val)
            elif key.startswith("CH") and key.endswith("_ID"):
                out["ids"][val[:1].upper()] = int(key[2:-3])
    rows = [ln.split() for ln in lines[body_at:] if ln.strip()]
    out["data"] = np.array([[int(v) for v in r] for r in rows], dtype=np.int64)
    return out


# --------------------------------------------------------------------------------------------------
# MiniShark
# --------------------------------------------------------------------------------------------------

def write_minishark(path, vt, ns, ew, fs, gain, conversion, eol="\n", npts=None, ncols=3):
    """Layout taken from the regular expressions of hvsrpy (the example file is empty in this checkout):
    '#' header lines with a tab between key and value, then tab separated rows V, N, E."""
    n = len(vt)
    npts = n if npts is None else npts
    lines = ["#MiniShark recording",
             "#Serial number:\t0003",
             "#Start time:\t2018-11-15 04:41:00",
             f"#Sample rate (sps):\t{int(fs)}",
             f"#Sample number:\t{int(npts)}",
             "#Channels:\tV N E",
             f"#Gain:\t{int(gain)}",
             f"#Conversion factor:\t{int(conversion)}",
             "#Units:\tcounts"]
    cols = [np.asarray(c).astype(np.int64) for c in (vt, ns, ew)][:ncols]
    rows = ["\t".join(str(int(v)) for v in row) for row in zip(*cols)]
    text = eol.join(lines + rows) + eol
    with open(path, "wb") as f:
        f.write(text.encode("ascii"))


# --------------------------------------------------------------------------------------------------
# PEER
# --------------------------------------------------------------------------------------------------

def peer_token(v, style="C"):
    """One sample as text in a 15 character field: C style '%15.7E' or the Fortran style of the PEER
    database ('  -.4924324E-04': mantissa in [0.1, 1))."""
    if style == "C":
        return "%15.7E" % v
    s = "%.6E" % abs(v)                       # d.ddddddE+xx
    mant, ex = s.split("E")
    digits = mant.replace(".", "")            # 7 digits
    ex = int(ex) + 1 if float(v) != 0.0 else 0
    sign = "-" if (v < 0) else ""
    tok = f"{sign}.{digits}E{ex:+03d}"
    return tok.rjust(15)


def write_peer(path, tokens, code, dt_text, npts=None, eol="\n", station="Alhambra - Fremont School"):
    npts = len(tokens) if npts is None else npts
    lines = ["PEER NGA STRONG MOTION DATABASE RECORD",
             f"Northridge-01, 1/17/1994, {station}, {code}",
             "VELOCITY TIME SERIES IN UNITS OF CM/S",
             f"NPTS=  {int(npts):5d}, DT=   {dt_text} SEC"]
    for k in range(0, len(tokens), 5):
        lines.append("".join(tokens[k:k + 5]))
    text = eol.join(lines) + eol
    with open(path, "wb") as f:
        f.write(text.encode("ascii"))


def parse_peer(path):
    """Independent parse (line/field based): dict(code, npts, dt, data float64)."""
    with open(path, "rb") as f:
        raw = f.read().decode("ascii")
    lines = raw.replace("\r\n", "\n").split("\n")
    code = lines[1].rsplit(",", 1)[1].strip()
    head = lines[3]
    npts = int(head.split("NPTS=")[1].split(",")[0])
    dt = float(head.split("DT=")[1].split()[0])
    vals = []
    for ln in lines[4:]:
        vals.extend(float(tok) for tok in ln.split())
    return {"code": code, "npts": npts, "dt": dt, "data": np.array(vals, dtype=np.float64)}
