"""Line-reach monitor (sys.monitoring, LINE events restricted to the property's anchored files,
DISABLE after the first hit so the cost is ~0): which anchored statements did the workload execute?"""

import json
import os
import sys
import types

TOOL = 3          # a free tool id (0..5); 3 is not used by debuggers/profilers/coverage by convention
_reached = set()
_totals = {}
_active = False


def anchored_files(prop):
    here = os.path.dirname(os.path.dirname(os.path.abspath(__file__)))
    with open(os.path.join(here, "properties.jsonl")) as f:
        for line in f:
            p = json.loads(line)
            if p["id"] == prop:
                return [x for x in p["anchors"]["files"] if x.endswith(".py")]
    return []


def _code_objects(code, out):
    out.append(code)
    for c in code.co_consts:
        if isinstance(c, types.CodeType):
            _code_objects(c, out)


def _live_codes(module_file):
    """Code objects of functions defined in module_file that are live in the imported package."""
    import gc
    out = []
    for obj in gc.get_objects():
        if isinstance(obj, types.FunctionType) and getattr(obj, "__code__", None) is not None:
            if obj.__code__.co_filename == module_file:
                _code_objects(obj.__code__, out)
    return out


def start(prop, repo_root):
    global _active
    if not hasattr(sys, "monitoring"):
        return False
    mon = sys.monitoring
    try:
        mon.use_tool_id(TOOL, "hvmon-linereach")
    except ValueError:
        return False
    files = [os.path.join(repo_root, f) for f in anchored_files(prop)]

    def on_line(code, line):
        _reached.add((code.co_filename, line))
        return mon.DISABLE

    mon.register_callback(TOOL, mon.events.LINE, on_line)
    seen = set()
    for fn in files:
        if not os.path.exists(fn):
            continue
        with open(fn) as f:
            top = compile(f.read(), fn, "exec")
        allc = []
        _code_objects(top, allc)
        lines = set()
        for c in allc[1:]:                     # function bodies only (module level ran at import)
            lines.update(l for _, _, l in c.co_lines() if l is not None)
        _totals[fn] = lines
        for c in _live_codes(fn):
            if id(c) not in seen:
                seen.add(id(c))
                try:
                    mon.set_local_events(TOOL, c, mon.events.LINE)
                except Exception:
                    pass
    _active = True
    return True


def result(repo_root):
    out = {}
    for fn, lines in _totals.items():
        hit = {l for (f, l) in _reached if f == fn and l in lines}
        out[os.path.relpath(fn, repo_root)] = sorted(hit)
    return out, {os.path.relpath(fn, repo_root): len(v) for fn, v in _totals.items()}
