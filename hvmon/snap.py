"""Bit-exact deep snapshots, diffs and an alias walker (DESIGN 2.2)."""

import numpy as np


def snap(obj, _depth=0, _seen=None):
    """Canonical, bit-exact, hashable-free representation of a value graph.

    ndarrays -> ('nd', dtype, shape, bytes); floats by repr; dict/list/tuple by content
    (list and tuple are distinguished); objects with __dict__ by class name + attributes.
    """
    if _seen is None:
        _seen = set()
    if _depth > 12:
        return ("deep", type(obj).__name__)
    if obj is None or isinstance(obj, (bool, int, str, bytes)):
        return obj
    if isinstance(obj, float):
        return ("f", repr(obj))
    if isinstance(obj, np.generic):
        return ("np", str(obj.dtype), repr(obj.item()))
    if isinstance(obj, np.ndarray):
        if obj.dtype == object:
            return ("ndo", obj.shape, [snap(x, _depth + 1, _seen) for x in obj.ravel()])
        return ("nd", str(obj.dtype), tuple(obj.shape), np.ascontiguousarray(obj).tobytes())
    if isinstance(obj, dict):
        return ("dict", [(snap(k, _depth + 1, _seen), snap(v, _depth + 1, _seen)) for k, v in obj.items()])
    if isinstance(obj, list):
        return ("list", [snap(v, _depth + 1, _seen) for v in obj])
    if isinstance(obj, tuple):
        return ("tuple", [snap(v, _depth + 1, _seen) for v in obj])
    if isinstance(obj, (set, frozenset)):
        return ("set", sorted(repr(snap(v, _depth + 1, _seen)) for v in obj))
    if id(obj) in _seen:
        return ("cycle", type(obj).__name__)
    if hasattr(obj, "__dict__"):
        _seen = _seen | {id(obj)}
        return ("obj", type(obj).__name__,
                [(k, snap(v, _depth + 1, _seen)) for k, v in sorted(vars(obj).items())])
    return ("repr", repr(obj))


def diff(a, b, path="", out=None, limit=12):
    """Paths at which two snapshots differ."""
    if out is None:
        out = []
    if len(out) >= limit:
        return out
    if type(a) != type(b):
        out.append(f"{path}: type {type(a).__name__} != {type(b).__name__}")
        return out
    if isinstance(a, tuple) and a and isinstance(a[0], str) and a[0] in ("dict", "list", "tuple", "obj", "nd", "ndo", "f", "np", "set"):
        if a[0] != b[0]:
            out.append(f"{path}: kind {a[0]} != {b[0]}")
            return out
        tag = a[0]
        if tag == "nd":
            if a[1:3] != b[1:3]:
                out.append(f"{path}: array dtype/shape {a[1:3]} != {b[1:3]}")
            elif a[3] != b[3]:
                x = np.frombuffer(a[3], dtype=a[1]).reshape(a[2])
                y = np.frombuffer(b[3], dtype=b[1]).reshape(b[2])
                neq = np.flatnonzero((x != y).ravel() & ~((x != x) & (y != y)).ravel()) if x.dtype.kind in "fc" else np.flatnonzero((x != y).ravel())
                first = int(neq[0]) if neq.size else -1
                out.append(f"{path}: array content differs at {neq.size} of {x.size} entries"
                           + (f" (first flat index {first}: {x.ravel()[first]!r} -> {y.ravel()[first]!r})" if first >= 0 else " (bit pattern only)"))
            return out
        if tag in ("f", "np", "set"):
            if a != b:
                out.append(f"{path}: {a[1:]} != {b[1:]}")
            return out
        if tag == "obj":
            if a[1] != b[1]:
                out.append(f"{path}: class {a[1]} != {b[1]}")
                return out
            da, db = dict(a[2]), dict(b[2])
            for k in sorted(set(da) | set(db)):
                if k not in da or k not in db:
                    out.append(f"{path}.{k}: attribute {'added' if k not in da else 'removed'}")
                else:
                    diff(da[k], db[k], f"{path}.{k}", out, limit)
            return out
        if tag == "dict":
            ka = [repr(k) for k, _ in a[1]]
            kb = [repr(k) for k, _ in b[1]]
            da = {repr(k): v for k, v in a[1]}
            db = {repr(k): v for k, v in b[1]}
            for k in sorted(set(ka) | set(kb)):
                if k not in da or k not in db:
                    out.append(f"{path}[{k}]: key {'added' if k not in da else 'removed'}")
                else:
                    diff(da[k], db[k], f"{path}[{k}]", out, limit)
            return out
        # list / tuple / ndo
        la, lb = a[-1], b[-1]
        if len(la) != len(lb):
            out.append(f"{path}: length {len(la)} != {len(lb)}")
            return out
        for i, (x, y) in enumerate(zip(la, lb)):
            diff(x, y, f"{path}[{i}]", out, limit)
        return out
    if a != b:
        out.append(f"{path}: {a!r:.80} != {b!r:.80}")
    return out


def same(a, b):
    return a == b


# -- content normalisation (sequences compared element by element) ----------------------------
def norm(obj):
    """Content of a value with tuple/list/ndarray -> list and numpy scalars -> python scalars."""
    if isinstance(obj, np.ndarray):
        return [norm(x) for x in obj.tolist()]
    if isinstance(obj, np.generic):
        return obj.item()
    if isinstance(obj, (list, tuple)):
        return [norm(x) for x in obj]
    if isinstance(obj, dict):
        return {str(k): norm(v) for k, v in obj.items()}
    if type(obj).__module__.startswith("pandas") and hasattr(obj, "tolist"):       # a pandas Series is a sequence of its values
        return [norm(x) for x in obj.tolist()]
    return obj


# -- alias walker ---------------------------------------------------------------------------
def mutable_leaves(obj, path="", out=None, _seen=None, _depth=0):
    """(path, object) for every mutable container / ndarray reachable from obj."""
    if out is None:
        out, _seen = [], set()
    if _depth > 10 or id(obj) in _seen:
        return out
    if isinstance(obj, np.ndarray):
        _seen.add(id(obj))
        out.append((path, obj))
        return out
    if type(obj).__module__.startswith("pandas"):
        # a pandas container counts through its data buffer; its index caches and block managers are pandas' own business
        _seen.add(id(obj))
        vals = getattr(obj, "values", None)
        if isinstance(vals, np.ndarray):
            out.append((path + ".values", vals))
        return out
    if isinstance(obj, dict):
        _seen.add(id(obj))
        out.append((path, obj))
        for k, v in obj.items():
            mutable_leaves(v, f"{path}[{k!r}]", out, _seen, _depth + 1)
        return out
    if isinstance(obj, list):
        _seen.add(id(obj))
        out.append((path, obj))
        for i, v in enumerate(obj):
            mutable_leaves(v, f"{path}[{i}]", out, _seen, _depth + 1)
        return out
    if isinstance(obj, tuple):
        for i, v in enumerate(obj):
            mutable_leaves(v, f"{path}[{i}]", out, _seen, _depth + 1)
        return out
    if hasattr(obj, "__dict__") and not isinstance(obj, type) and not callable(obj):
        _seen.add(id(obj))
        for k, v in vars(obj).items():
            mutable_leaves(v, f"{path}.{k}", out, _seen, _depth + 1)
    return out


def aliases(a, b):
    """Pairs (path_in_a, path_in_b) of mutable leaves that are the same object or share memory."""
    la = mutable_leaves(a)
    lb = mutable_leaves(b)
    out = []
    for pa, xa in la:
        for pb, xb in lb:
            if xa is xb:
                out.append((pa, pb, "same-object"))
            elif isinstance(xa, np.ndarray) and isinstance(xb, np.ndarray) and xa.size and xb.size \
                    and np.shares_memory(xa, xb):
                out.append((pa, pb, "shared-memory"))
    return out


def poke(x):
    """Mutate a mutable leaf in place in a way that is visible in its snapshot. Returns an undo fn."""
    if isinstance(x, np.ndarray):
        if x.size == 0 or not x.flags.writeable:
            return None
        old = x.flat[0].copy() if hasattr(x.flat[0], "copy") else x.flat[0]
        if x.dtype.kind == "b":
            x.flat[0] = not x.flat[0]
        elif x.dtype.kind in "iu":
            x.flat[0] = x.flat[0] ^ 1              # (any integer width: flips the lowest bit)
        elif x.dtype.kind == "f":
            x.flat[0] = x.flat[0] + 12345
        else:
            return None

        def undo():
            x.flat[0] = old
        return undo
    if isinstance(x, list):
        x.append("__poked__")
        return lambda: x.pop()
    if isinstance(x, dict):
        x["__poked__"] = 1
        return lambda: x.pop("__poked__")
    return None
