"""Driver: ./check <Cxx> <quick|thorough> | ./check <Cxx> --replay <file>

Spawns shard subprocesses (subprocess.run with timeout; never multiprocessing.Pool), aggregates
what their monitors observed, matches violations against /verif/known_findings.json, writes
/verif/evidence/<id>.json and replay files, prints VIOLATION / KNOWN-FINDING / INCONCLUSIVE lines.

exit 0  held on everything observed (known findings are printed, not alarmed)
exit 1  at least one violation that known_findings.json does not list
exit 2  inconclusive (a deciding monitor was never evaluated, a shard died or timed out)
"""

import concurrent.futures
import importlib
import json
import os
import shutil
import subprocess
import sys
import tempfile
import time

HERE = os.path.dirname(os.path.dirname(os.path.abspath(__file__)))
EVID = os.environ.get("HVMON_EVIDENCE_DIR") or os.path.join(HERE, "evidence")   # (drills write elsewhere)
REPLAY = os.path.join(EVID, "replay")


def ensure_setup():
    if not os.path.isdir(os.path.join(HERE, ".deps", "icontract")) or not os.path.isdir(os.path.join(HERE, ".cache")):
        subprocess.run(["bash", os.path.join(HERE, "setup.sh")], check=False)
    os.makedirs(REPLAY, exist_ok=True)


def load_known():
    path = os.path.join(HERE, "known_findings.json")
    try:
        with open(path) as f:
            return json.load(f).get("findings", [])
    except FileNotFoundError:
        return []


def match_known(prop, v, known):
    """A violation is a known finding only if a *listed, unfixed* entry names its mechanism."""
    for k in known:
        if k.get("status") != "known" or k.get("property") != prop:
            continue
        if k.get("kind") != v["kind"]:
            continue
        where = k.get("where", {})
        wit = v.get("witness") or {}
        if all(wit.get(a) == b for a, b in where.items()):
            return k
    return None


def hash_seed_of(seed, shard):
    """Python's string-hash seed of a shard: fixed per (seed, shard) so that runs repeat, but different from shard to
    shard, so that anything depending on set / dict-of-str iteration order is exercised under several orders."""
    return (int(seed) * 131 + int(shard) * 7919 + 1) % 4294967295


def run_shard(prop, tier, seed, shard, nshards, cases, seconds, outdir, only_index=None, verbose=False, hash_seed=None,
              family=None):
    out = os.path.join(outdir, f"shard{shard}.json")
    cmd = [sys.executable, "-W", "ignore", "-m", "hvmon.shard", prop, "--tier", tier, "--seed", str(seed),
           "--shard", str(shard), "--nshards", str(nshards), "--cases", str(cases),
           "--seconds", str(seconds), "--out", out]
    if only_index is not None:
        cmd += ["--only-index", str(only_index)]
    if family is not None:
        cmd += ["--family", str(family)]
    if verbose:
        cmd += ["--verbose"]
    env = dict(os.environ)
    hash_seed = hash_seed_of(seed, shard) if hash_seed is None else int(hash_seed)
    env["PYTHONHASHSEED"] = str(hash_seed)
    # every fourth shard runs in a plain C/POSIX locale without UTF-8 mode (cron jobs, minimal containers): the default
    # text encoding of open() is then ASCII; the others run with UTF-8.  Decided by the hash seed, so a replay repeats it.
    if hash_seed % 4 == 2:
        env.update(LC_ALL="C", LANG="C", PYTHONUTF8="0", PYTHONCOERCECLOCALE="0")
    else:
        env.update(LC_ALL="C.utf8", LANG="C.utf8", PYTHONUTF8="1")
    watchdog = seconds * 4 + 600  # generous; a firing watchdog is inconclusive, never a violation
    try:
        p = subprocess.run(cmd, cwd=HERE, env=env, capture_output=not verbose, text=True, timeout=watchdog)
    except subprocess.TimeoutExpired:
        return {"shard": shard, "dead": "watchdog"}
    if p.returncode != 0 or not os.path.exists(out):
        tail = ((p.stderr or "") + (p.stdout or ""))[-3000:] if not verbose else ""
        return {"shard": shard, "dead": f"exit {p.returncode}", "stderr": tail}
    with open(out) as f:
        res = json.load(f)
    res["hash_seed"] = hash_seed
    res["locale"] = env["LC_ALL"]
    for v in res.get("violations", []):
        v["hash_seed"] = hash_seed
    return res


def main(argv=None):
    argv = list(sys.argv[1:] if argv is None else argv)
    if not argv:
        print(__doc__)
        return 64
    prop = argv.pop(0)
    replay = None
    tier = os.environ.get("VERIF_TIER", "quick")
    verbose = False
    while argv:
        a = argv.pop(0)
        if a == "--replay":
            replay = argv.pop(0)
        elif a in ("quick", "thorough"):
            tier = a
        elif a == "--verbose":
            verbose = True
        else:
            print("unknown argument", a)
            return 64
    seed = int(os.environ.get("VERIF_SEED", "0"))
    ensure_setup()
    t0 = time.time()
    mod = importlib.import_module(f"hvmon.monitors.{prop}")
    known = load_known()

    # scratch space outside /repo and /verif, removed in finally
    scratch = tempfile.mkdtemp(prefix=f"hvmon-{prop}-")
    os.environ["HVMON_SCRATCH"] = scratch
    try:
        if replay is not None:
            with open(replay) as f:
                rp = json.load(f)
            res = run_shard(prop, rp.get("tier", tier), rp["seed"], 0, 1, 1, 3600, scratch,
                            only_index=rp["index"], verbose=True, hash_seed=rp.get("hash_seed", 0), family=rp.get("family"))
            if "dead" in res:
                print(f"INCONCLUSIVE property={prop} reason=replay shard {res['dead']}")
                print(res.get("stderr", ""))
                return 2
            bad = [v for v in res["violations"] if not match_known(prop, v, known)]
            for v in res["violations"]:
                print(json.dumps(v, indent=1)[:6000])
            print(f"replay of {prop} case #{rp['index']} ({rp.get('family')}): "
                  f"{len(res['violations'])} violation(s), {len(bad)} not listed as known")
            if bad:
                print(f"VIOLATION property={prop} replay={os.path.abspath(replay)}")
                return 1
            return 0

        b = mod.BUDGET[tier]
        nshards = int(os.environ.get("HVMON_SHARDS", b.get("shards", 4)))
        cases = int(os.environ.get("HVMON_CASES", b["cases"]))
        seconds = float(os.environ.get("HVMON_SECONDS", b["seconds"]))
        with concurrent.futures.ThreadPoolExecutor(max_workers=nshards) as ex:
            futs = [ex.submit(run_shard, prop, tier, seed, s, nshards, cases, seconds, scratch)
                    for s in range(nshards)]
            results = [f.result() for f in futs]
    finally:
        shutil.rmtree(scratch, ignore_errors=True)

    return aggregate(prop, mod, tier, seed, results, known, time.time() - t0)


def aggregate(prop, mod, tier, seed, results, known, wall):
    import collections
    counters = collections.Counter()
    sigs, states = set(), set()
    samples, violations, families = [], [], collections.Counter()
    dead = []
    lines_reached, lines_total = {}, {}
    for r in results:
        if "dead" in r:
            dead.append(r)
            continue
        for fn, ls in r.get("lines_reached", {}).items():
            lines_reached.setdefault(fn, set()).update(ls)
        lines_total.update(r.get("lines_total", {}))
        for fn, ls in r.get("extra_lines", {}).items():
            lines_reached.setdefault(fn, set()).update(ls)
        lines_total.update(r.get("extra_totals", {}))
        counters.update(r["counters"])
        sigs.update(r["sigs"])
        states.update(r.get("states", []))
        families.update(r["families"])
        for s in r["samples"]:
            if sum(1 for x in samples if x["family"] == s["family"]) < 1:
                samples.append(s)
        violations.extend(r["violations"])

    # replay files (cleared for this property first: evidence is rewritten on every run)
    for fn in os.listdir(REPLAY):
        if fn.startswith(prop + "-"):
            os.remove(os.path.join(REPLAY, fn))
    new, matched = [], collections.OrderedDict()
    for v in violations:
        k = match_known(prop, v, known)
        if k is not None:
            matched.setdefault(k["id"], [k, 0])[1] += 1
        else:
            new.append(v)
    lines = []
    seen_cases = set()
    for n, v in enumerate(new):
        key = (v["family"], v["index"])
        path = os.path.join(REPLAY, f"{prop}-{v['index']}.json")
        if key not in seen_cases:
            seen_cases.add(key)
            with open(path, "w") as f:
                json.dump({"property": prop, "seed": seed, "tier": tier, "index": v["index"], "hash_seed": v.get("hash_seed", 0),
                           "family": v["family"], "case": v["case"],
                           "violations": [x for x in new if (x["family"], x["index"]) == key]}, f, indent=1)
            lines.append(f"VIOLATION property={prop} replay={path}")
        if len(lines) >= 20:
            break

    required = getattr(mod, "REQUIRED", [])
    missing = [c for c in required if counters.get(c, 0) == 0]
    inconclusive = []
    if dead:
        inconclusive.append("shard(s) died or hit the watchdog: " + "; ".join(
            f"#{d['shard']} {d['dead']} {d.get('stderr', '')[-400:]}" for d in dead))
    if missing:
        inconclusive.append("deciding monitors never evaluated: " + ",".join(missing))
    if counters.get("cases", 0) == 0:
        inconclusive.append("no case executed")
    abandoned = counters.get("cases_abandoned_by_watchdog", 0)
    if abandoned > 0.25 * max(counters.get("cases", 0), 1):
        inconclusive.append(f"{abandoned} of {counters.get('cases', 0)} cases were abandoned by a child-process watchdog (loaded machine)")
    amb = counters.get("ambiguous_skipped", 0)
    judged = sum(v for k, v in counters.items() if k.startswith("mon:"))
    if amb > 0.2 * (amb + judged):
        inconclusive.append(f"more than 20% of the comparisons were ambiguous and skipped ({amb} of {amb + judged})")

    evidence = {
        "property_id": prop,
        "tier": tier,
        "seed": seed,
        "level": "exploration",
        "coverage": {
            "evaluations": int(counters.get("cases", 0)),
            "distinct_nontrivial": len(sigs),
            "rule": mod.RULE,
            "samples": samples[:12],
            "families": dict(families),
            "monitor_evaluations": {k[4:]: v for k, v in sorted(counters.items()) if k.startswith("mon:")},
            "observed": {k: v for k, v in sorted(counters.items()) if not k.startswith("mon:")},
            "distinct_states_or_configurations": len(states),
            "shards": len(results),
            "python_hash_seeds": sorted({r.get("hash_seed") for r in results if r.get("hash_seed") is not None}),
            "shard_locales": sorted({r.get("locale") for r in results if r.get("locale")}),
            "known_findings_matched": {k: n for k, (f, n) in matched.items()},
            "inconclusive": inconclusive,
            "not_reached": getattr(mod, "NOT_REACHED", []),
            "anchored_function_lines_reached": {fn: f"{len(lines_reached.get(fn, ()))}/{lines_total[fn]}" for fn in sorted(lines_total)},
        },
        "assumptions": getattr(mod, "ASSUMPTIONS", []),
        "wall_s": round(wall, 2),
        "violations": len(new),
    }
    os.makedirs(EVID, exist_ok=True)
    with open(os.path.join(EVID, f"{prop}.json"), "w") as f:
        json.dump(evidence, f, indent=1)

    mons = evidence["coverage"]["monitor_evaluations"]
    print(f"{prop} {tier} seed={seed}: {counters.get('cases', 0)} cases, {len(sigs)} distinct non-trivial, "
          f"{sum(mons.values())} monitor evaluations over {len(mons)} monitors, "
          f"{len(violations)} violation record(s), wall {wall:.1f}s")
    for kid, (k, n) in matched.items():
        print(f"KNOWN-FINDING: property={prop} {kid}: {k.get('what', '')} (observed {n}x)")
    for ln in lines:
        print(ln)
    if new:
        kinds = collections.Counter(v["kind"] for v in new)
        print("  violation kinds:", dict(kinds))
        v = new[0]
        print("  first:", v["kind"], v["message"][:500])
        return 1
    if inconclusive:
        for r in inconclusive:
            print(f"INCONCLUSIVE property={prop} reason={r}")
        return 2
    return 0


if __name__ == "__main__":
    sys.exit(main())
