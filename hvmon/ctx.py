"""Per-shard monitoring context: counters, distinct-case signatures, samples, violations."""

import collections
import hashlib
import json
import traceback

import numpy as np


def jsonable(obj, maxlen=24, depth=0):
    """Best-effort conversion of a witness into something json.dump accepts (truncating arrays)."""
    if depth > 6:
        return repr(obj)[:200]
    if obj is None or isinstance(obj, (bool, int, str)):
        return obj
    if isinstance(obj, float):
        return obj if np.isfinite(obj) else repr(obj)
    if isinstance(obj, (np.bool_,)):
        return bool(obj)
    if isinstance(obj, np.integer):
        return int(obj)
    if isinstance(obj, np.floating):
        return jsonable(float(obj))
    if isinstance(obj, np.ndarray):
        flat = obj.ravel()
        head = [jsonable(x.item() if hasattr(x, "item") else x) for x in flat[:maxlen]]
        if flat.size > maxlen:
            return {"shape": list(obj.shape), "dtype": str(obj.dtype), "head": head}
        return {"shape": list(obj.shape), "values": head} if obj.ndim != 1 else head
    if isinstance(obj, dict):
        return {str(k): jsonable(v, maxlen, depth + 1) for k, v in list(obj.items())[:60]}
    if isinstance(obj, (list, tuple, set, frozenset)):
        seq = list(obj)
        out = [jsonable(v, maxlen, depth + 1) for v in seq[:maxlen]]
        if len(seq) > maxlen:
            out.append(f"... ({len(seq)} items)")
        return out
    return repr(obj)[:300]


def sig_hash(sig):
    return hashlib.sha1(json.dumps(jsonable(sig, maxlen=64), sort_keys=True).encode()).hexdigest()[:16]


class Ctx:
    """What a case function talks to.

    * ``check(cond, kind, msg, **witness)`` evaluates one monitor: counts the evaluation under
      ``mon:<kind>`` and records a violation when ``cond`` is false.
    * ``nontrivial(sig)`` registers the case as non-trivial with a signature (distinct count).
    * ``count(name)`` free counters (events observed, ambiguous skips, ...).
    """

    def __init__(self, prop, tier, seed, shard=0, nshards=1, verbose=False):
        self.prop = prop
        self.tier = tier
        self.seed = seed
        self.shard = shard
        self.nshards = nshards
        self.verbose = verbose
        self.counters = collections.Counter()
        self.sigs = set()
        self.samples = {}
        self.violations = []
        self.family_counts = collections.Counter()
        self.states = set()
        self.extra_lines = {}       # anchored lines reached in child processes (file -> set of lines)
        self.extra_totals = {}
        self._family = None
        self._idx = None
        self._case_info = None

    # -- case bookkeeping -------------------------------------------------------------------
    def begin_case(self, family, idx):
        self._family, self._idx, self._case_info = family, idx, None
        self.family_counts[family] += 1
        self.counters["cases"] += 1

    def describe(self, **info):
        """Concrete, human-readable description of the current case (goes to samples / replay)."""
        self._case_info = jsonable(info)
        fam = self._family
        if fam not in self.samples:
            self.samples[fam] = {"family": fam, "index": self._idx, "case": self._case_info}

    def nontrivial(self, sig):
        self.sigs.add(sig_hash([self._family, sig]))

    def state(self, st):
        """Register a distinct observed state/configuration/interleaving (evidence only)."""
        self.states.add(sig_hash(st))

    def once_per_run(self, token):
        """True for exactly one caller per run (across shards): an O_EXCL lock file in the run's scratch directory."""
        import os
        d = os.environ.get("HVMON_SCRATCH")
        if not d:
            return self.shard == 0 and not self.counters.get("once:" + token)
        try:
            fd = os.open(os.path.join(d, f"once-{self.prop}-{token}.lock"), os.O_CREAT | os.O_EXCL | os.O_WRONLY)
            os.close(fd)
            return True
        except FileExistsError:
            return False

    def every(self, stride, phase=0):
        """True for the cases whose index is `phase` modulo `stride`: a costly variant (very large inputs) that runs a
        fixed, small number of times per run and replays by its index."""
        hit = self._idx is not None and self._idx >= 0 and self._idx % stride == phase
        if hit:
            self.counters["large_size_cases"] += 1
        return hit

    def count(self, name, n=1):
        self.counters[name] += n

    # -- monitors ---------------------------------------------------------------------------
    def check(self, cond, kind, msg="", /, **witness):
        self.counters["mon:" + kind] += 1
        if not cond:
            self.violation(kind, msg, **witness)
            return False
        return True

    def violation(self, kind, msg="", /, **witness):
        self.counters["violations"] += 1
        v = {"kind": kind, "message": str(msg)[:2000], "family": self._family, "index": self._idx,
             "case": self._case_info, "witness": jsonable(witness)}
        if self.verbose:
            print("  VIOLATED", kind, msg, json.dumps(v["witness"])[:1500], flush=True)
        # keep at most 8 per (kind, mechanism, family) per shard -- enough to classify, bounded output; the mechanism
        # is part of the key so that listed known findings can never crowd out a different violation of the same kind
        key = (kind, str((v["witness"] or {}).get("mechanism")), self._family)
        if sum(1 for x in self.violations if (x["kind"], str((x["witness"] or {}).get("mechanism")), x["family"]) == key) < 8:
            self.violations.append(v)

    def exception(self, exc):
        tb = traceback.format_exc()
        in_repo = "/hvsrpy/" in tb
        kind = f"exception:{type(exc).__name__}"
        self.violation(kind, f"{exc!r}", traceback=tb[-3000:], raised_inside_hvsrpy=in_repo)

    # -- results ----------------------------------------------------------------------------
    def result(self):
        return {
            "shard": self.shard,
            "counters": dict(self.counters),
            "sigs": sorted(self.sigs),
            "states": sorted(self.states),
            "samples": list(self.samples.values()),
            "violations": self.violations,
            "families": dict(self.family_counts),
            "extra_lines": {k: sorted(v) for k, v in self.extra_lines.items()},
            "extra_totals": dict(self.extra_totals),
        }


# -- numeric helpers shared by monitors -----------------------------------------------------
def close(a, b, rtol=1e-9, atol=0.0):
    a = np.asarray(a, dtype=float)
    b = np.asarray(b, dtype=float)
    if a.shape != b.shape:
        return False
    with np.errstate(all="ignore"):
        both_nan = np.isnan(a) & np.isnan(b)
        ok = np.abs(a - b) <= atol + rtol * np.maximum(np.abs(a), np.abs(b))
        ok |= both_nan
        ok |= (a == b)
    return bool(np.all(ok))


def maxrel(a, b):
    a = np.asarray(a, dtype=float)
    b = np.asarray(b, dtype=float)
    if a.shape != b.shape:
        return float("inf")
    with np.errstate(all="ignore"):
        d = np.abs(a - b) / np.maximum(np.maximum(np.abs(a), np.abs(b)), 1e-300)
        d = np.where((a == b) | (np.isnan(a) & np.isnan(b)), 0.0, d)
    return float(np.nanmax(d)) if d.size else 0.0


def biteq(a, b):
    a = np.asarray(a)
    b = np.asarray(b)
    return a.shape == b.shape and a.dtype == b.dtype and a.tobytes() == b.tobytes()


def biteq_nan(a, b):
    """Bit equality of two float arrays where any NaN matches any NaN (the sign / payload bits of a NaN do not survive
    a text file and carry no meaning)."""
    a = np.asarray(a, dtype=float)
    b = np.asarray(b, dtype=float)
    if a.shape != b.shape:
        return False
    na, nb = np.isnan(a), np.isnan(b)
    return bool(np.array_equal(na, nb)) and np.where(na, 0.0, a).tobytes() == np.where(nb, 0.0, b).tobytes()
