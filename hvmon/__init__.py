"""hvmon: runtime monitors for hvsrpy (see /verif/DESIGN.md)."""
