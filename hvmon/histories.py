"""Operation histories over HVSR result objects (shared by C05, C06, C11, C12, C20).

Every step is performed through hvsrpy's public API exactly as a user (or hvsrpy's own
manual_window_rejection) would; the step list that was applied is returned for the evidence.
"""

import numpy as np

from . import gen


def rand_range(rng, f):
    k = rng.random()
    if k < 0.3:
        return (None, None)
    lo, hi = sorted(float(v) for v in rng.uniform(np.log(f[0]), np.log(f[-1]), 2))
    lo, hi = float(np.exp(lo)), float(np.exp(hi))
    if k < 0.45:
        return (lo, None)
    if k < 0.6:
        return (None, hi)
    if hi / lo < 1.3:
        hi = lo * 1.3
    return (lo, hi)


def td_records(rng, keep):
    """Small synthetic windows whose maximum-value / STA-LTA decision is `keep` (clear margins)."""
    recs = []
    for k in keep:
        n = 400
        arrs = [0.1 * rng.standard_normal(n) for _ in range(3)]
        if not k:
            c = int(rng.integers(0, 3))
            arrs[c][int(rng.integers(150, 250))] = 50.0
        recs.append(gen.make_recording(arrs[0], arrs[1], arrs[2], 0.01))
    return recs


def step_time_domain(rng, hv, n_windows):
    import hvsrpy
    keep = rng.random(n_windows) < rng.choice([0.5, 0.7, 0.9])
    if keep.sum() < 2:
        keep[:] = True
        keep[int(rng.integers(0, n_windows))] = n_windows < 3
    recs = td_records(rng, keep)
    if rng.random() < 0.5:
        hvsrpy.maximum_value_window_rejection(recs, maximum_value_threshold=0.5, normalized=bool(rng.random() < 0.5) and not keep.all(),
                                              hvsr=hv)
        # (normalised with no transient window would reject the loudest window; fine, any mask is a state)
        return ["maximum_value_window_rejection", keep.tolist()]
    hvsrpy.sta_lta_window_rejection(recs, sta_seconds=0.2, lta_seconds=3.9, min_sta_lta_ratio=0.1,
                                    max_sta_lta_ratio=4.0, hvsr=hv)
    return ["sta_lta_window_rejection", keep.tolist()]


def step_manual(rng, hv, hvsrs):
    """What manual_window_rejection does for one drawn box: update(range, {}), masks False, update again."""
    sr = hv._search_range_in_hz
    hv.update_peaks_bounded(search_range_in_hz=sr, find_peaks_kwargs={})
    picked = []
    for a, h in enumerate(hvsrs):
        for i in range(h.n_curves):
            if rng.random() < 0.15:
                h.valid_window_boolean_mask[i] = False
                h.valid_peak_boolean_mask[i] = False
                picked.append((a, i))
    hv.update_peaks_bounded(search_range_in_hz=sr, find_peaks_kwargs={})
    return ["manual", picked]


def step_fdwra(rng, hv):
    import hvsrpy
    n = float(rng.choice([0.5, 1.0, 1.5, 2.0, 2.5, 3.0]))
    kw = dict(n=n, max_iterations=int(rng.choice([1, 2, 5, 50])),
              distribution_fn=str(rng.choice(["lognormal", "normal"])),
              distribution_mc=str(rng.choice(["lognormal", "normal"])),
              search_range_in_hz=rand_range(rng, hv.frequency))
    try:
        with np.errstate(all="ignore"):
            it = hvsrpy.frequency_domain_window_rejection(hv, **kw)
    except ValueError as e:   # mean curve without a peak / too few windows: legitimate refusals
        it = f"ValueError: {e}"[:80]
    return ["fdwra", {k: (list(v) if isinstance(v, tuple) else v) for k, v in kw.items()}, it]


def random_history(rng, hv, n_steps=None, allow=("range", "fdwra", "time", "manual")):
    import hvsrpy
    hvsrs = hv.hvsrs if isinstance(hv, hvsrpy.HvsrAzimuthal) else [hv]
    n_windows = hvsrs[0].n_curves
    same_counts = all(h.n_curves == n_windows for h in hvsrs)
    steps = []
    n_steps = int(n_steps if n_steps is not None else rng.integers(0, 7))
    for _ in range(n_steps):
        op = str(rng.choice(allow))
        if rng.random() < 0.2:
            # the history continues on a copy / an object that came back from a worker process
            steps.append(["recreated-by", gen.recreate_in_place(rng, hv)])
        if op == "range":
            r = rand_range(rng, hv.frequency)
            if rng.random() < 0.3:
                r = list(r)
            if rng.random() < 0.12:
                # the caller narrows what counts as a peak (scipy.signal.find_peaks options): windows whose curve never
                # reaches the height / prominence are left WITHOUT a peak - accepted windows outside the resonance statistics
                top = float(np.nanmax([np.max(np.asarray(h.amplitude)) for h in hvsrs]))
                fk = ({"height": float(rng.uniform(0.3, 0.9) * top)} if rng.random() < 0.6
                      else {"prominence": float(rng.uniform(0.05, 0.5) * top)})
                hv.update_peaks_bounded(search_range_in_hz=r, find_peaks_kwargs=dict(fk))
                steps.append(["range", list(r), fk])
            else:
                hv.update_peaks_bounded(search_range_in_hz=r)
                steps.append(["range", list(r)])
        elif op == "fdwra":
            steps.append(step_fdwra(rng, hv))
            if isinstance(steps[-1][2], str) and len(hvsrs) > 1:
                # a refusal part-way through an azimuthal object leaves its azimuths with different search
                # ranges; no property speaks about the state after a raised error, so the history ends here
                return
        elif op == "time" and same_counts:
            steps.append(step_time_domain(rng, hv, n_windows))
        elif op == "manual":
            steps.append(step_manual(rng, hv, hvsrs))
        yield steps


def build_traditional(rng, **kw):
    import hvsrpy
    f, amp, kind = gen.curve_set(rng, **kw)
    return hvsrpy.HvsrTraditional(f, amp, meta={"processing_method": "traditional"}), kind


def build_azimuthal(rng, n_az=None, equal_counts=None):
    import hvsrpy
    n_az = int(n_az if n_az is not None else rng.integers(1, 9))
    n_freq = int(rng.choice([16, 32, 64]))
    grid = str(rng.choice(["log", "linear"]))
    equal = bool(rng.random() < 0.5) if equal_counts is None else equal_counts
    n0 = int(rng.integers(2, 16))
    hv = []
    f = None
    for a in range(n_az):
        nc = n0 if equal else int(rng.integers(2, 16))
        sub = np.random.default_rng(int(rng.integers(0, 2 ** 31)))
        if f is None:
            f, amp, kind = gen.curve_set(sub, n_curves=nc, n_freq=n_freq, grid=grid)
        else:
            _, amp, kind = gen.curve_set(sub, n_curves=nc, n_freq=n_freq, grid=grid)
            # same grid: regenerate on f
            lf = np.log(f)
            amp = 1.0 + rng.uniform(1, 5, (nc, 1)) * np.exp(-0.5 * ((lf[None, :] - rng.uniform(lf[2], lf[-3], (nc, 1))) / rng.uniform(0.1, 0.4, (nc, 1))) ** 2)
        hv.append(hvsrpy.HvsrTraditional(f, amp))
    if rng.random() < 0.3:
        # assembled from per-azimuth results that already have a PAST of their own (a narrowed search range, a few windows
        # rejected by hand) - each azimuth in another state, the first one often still untouched.  The azimuthal object
        # is a new result: it starts from the curves alone (all windows accepted, the full range on every azimuth).
        for a, h in enumerate(hv):
            if rng.random() < (0.25 if a == 0 else 0.6):
                h.update_peaks_bounded(search_range_in_hz=rand_range(rng, h.frequency))
                if rng.random() < 0.5 and h.n_curves > 2:
                    i = int(rng.integers(0, h.n_curves))
                    h.valid_window_boolean_mask[i] = False
                    h.valid_peak_boolean_mask[i] = False
    az = np.sort(rng.choice(np.arange(0, 180, 0.5), size=n_az, replace=False)).tolist()
    meta = {"processing_method": "azimuthal"}
    if rng.random() < 0.35:
        # re-assembled from an earlier sweep (a subset of its azimuths kept, or two sweeps joined) with that sweep's
        # metadata handed on: the echo of the earlier settings no longer describes this object's azimuths
        earlier = np.arange(0, 180, float(rng.choice([15.0, 30.0, 45.0]))).tolist()
        meta.update({"azimuths_in_degrees": earlier, "window_type_and_width": ["tukey", 0.1],
                     "smoothing": {"operator": "konno_and_ohmachi", "bandwidth": 40, "center_frequencies_in_hz": [float(v) for v in f]},
                     "handle_dissimilar_time_steps_by": "frequency_domain_resampling", "fft_settings": {"n": 32768}})
    return hvsrpy.HvsrAzimuthal(hv, az, meta=meta)
