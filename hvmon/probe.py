"""Instrumentation layer: wraps live hvsrpy functions / registry entries without editing the repo."""

import functools
import sys

import numpy as np


class Trace:
    """Append-only event log with counters."""

    def __init__(self):
        self.events = []

    def add(self, kind, **data):
        self.events.append((kind, data))

    def of(self, kind):
        return [d for k, d in self.events if k == kind]

    def clear(self):
        self.events.clear()


TRACE = Trace()
_installed = {}


def patch_everywhere(orig, wrapper, prefix="hvsrpy"):
    """Replace every module-level binding that *is* orig (so `from .x import f` bindings are probed
    too). Returns the number of bindings replaced."""
    n = 0
    for name, mod in list(sys.modules.items()):
        if mod is None or not name.startswith(prefix):
            continue
        for attr, val in list(vars(mod).items()):
            if val is orig:
                setattr(mod, attr, wrapper)
                n += 1
    return n


def wrap_function(orig, on_call=None, on_return=None, name=None):
    name = name or getattr(orig, "__name__", "fn")

    @functools.wraps(orig)
    def wrapper(*args, **kwargs):
        token = on_call(name, args, kwargs) if on_call else None
        try:
            out = orig(*args, **kwargs)
        except BaseException as exc:
            if on_return:
                on_return(name, token, args, kwargs, None, exc)
            raise
        if on_return:
            on_return(name, token, args, kwargs, out, None)
        return out

    wrapper.__wrapped_by_hvmon__ = orig
    return wrapper


def probe_function(module, attr, on_call=None, on_return=None):
    """Probe module.attr in every hvsrpy namespace; idempotent per (module, attr)."""
    key = (module.__name__, attr)
    orig = getattr(module, attr)
    if key in _installed:
        unprobe(key)
        orig = getattr(module, attr)
    w = wrap_function(orig, on_call, on_return, name=attr)
    n = patch_everywhere(orig, w)
    _installed[key] = (orig, w)
    return n


def unprobe(key):
    orig, w = _installed.pop(key)
    patch_everywhere(w, orig)


def unprobe_all():
    for key in list(_installed):
        unprobe(key)


def probe_method(cls, attr, on_call=None, on_return=None):
    key = (cls.__module__ + "." + cls.__name__, attr)
    if key in _installed:
        setattr(cls, attr, _installed.pop(key)[0])
    orig = cls.__dict__[attr]
    if isinstance(orig, (classmethod, staticmethod)):
        raise TypeError("probe_method handles plain methods only")
    w = wrap_function(orig, on_call, on_return, name=f"{cls.__name__}.{attr}")
    setattr(cls, attr, w)
    _installed[key] = (orig, w)

    return 1


def probe_smoothing_registry(trace=TRACE):
    """Replace the entries of the SMOOTHING_OPERATORS dict object in place, so that every smoothing
    call made by process() is observed with its real arguments."""
    from hvsrpy import smoothing as S
    reg = S.SMOOTHING_OPERATORS
    if getattr(reg, "_hvmon", False) or any(hasattr(v, "__wrapped_by_hvmon__") for v in reg.values()):
        return 0
    n = 0
    for name, op in list(reg.items()):
        def make(name, op):
            def wrapper(frequencies, spectrum, fcs, bandwidth):
                out = op(frequencies, spectrum, fcs, bandwidth)
                trace.add("smooth", name=name, nf=int(np.size(frequencies)),
                          df=float(frequencies[1] - frequencies[0]) if np.size(frequencies) > 1 else 0.0,
                          f0=float(frequencies[0]), nrows=int(np.shape(spectrum)[0]),
                          fcs=np.array(fcs, dtype=float, copy=True), bandwidth=bandwidth,
                          spectrum=spectrum if trace_keep_arrays[0] else None, out_shape=np.shape(out))
                return out
            wrapper.__wrapped_by_hvmon__ = op
            wrapper.py_func = getattr(op, "py_func", None)
            return wrapper
        reg[name] = make(name, op)
        n += 1
    return n


trace_keep_arrays = [False]
