"""Reference peak search (no scipy, no hvsrpy): local maxima with plateau handling, and the
two-sided value-based oracle of DESIGN C08 (admissible: any local maximum strictly inside the range in Hz;
must-find: interior maxima of the stretch nearest(lo)..nearest(hi))."""

import numpy as np


def local_maxima(y):
    """[(left, right)] index ranges of the local maxima of y (strict rise before, strict fall after;
    a flat top is one maximum spanning left..right). End samples are never maxima."""
    y = np.asarray(y, dtype=float)
    n = y.size
    out = []
    i = 1
    while i < n - 1:
        if y[i - 1] < y[i]:
            j = i
            while j + 1 < n and y[j + 1] == y[i]:
                j += 1
            if j + 1 < n and y[j + 1] < y[i]:
                out.append((i, j))
            i = j + 1
        else:
            i += 1
    return out


def in_range_strict(f, lo, hi):
    return (lo is None or f > lo) and (hi is None or f < hi)


class Oracle:
    """What may / must be reported for (frequency, curve, range)."""

    def __init__(self, frequency, curve, search_range):
        f = np.asarray(frequency, dtype=float)
        y = np.asarray(curve, dtype=float)
        lo, hi = (None if v is None else float(v) for v in search_range)
        self.f, self.y, self.lo, self.hi = f, y, lo, hi
        self.full = local_maxima(y)
        # admissible: local maxima of the full curve strictly inside the range (any plateau sample)
        self.admissible = {}
        for (l, r) in self.full:
            for i in range(l, r + 1):
                if in_range_strict(f[i], lo, hi):
                    self.admissible[i] = (l, r)
        # must-find: interior local maxima of the searched stretch of the curve.  The stretch runs from the sample NEAREST
        # to lo through the sample nearest to hi (the library's documented reading of a range given in Hz; an open end is
        # the end of the grid); its two end samples are never interior.  So a peak on the first sample inside the range
        # must be found when lo lies nearer to the sample before it, and need not when lo lies nearer to that sample
        # itself (it then is the end of the stretch: the unchanged code answers (2.9, 9) on a 1 Hz grid that way).  A range
        # end exactly half way between two samples has two nearest samples: only what every choice demands is demanded.
        def nearest(v, default):
            if v is None:
                return [default]
            d = np.abs(f - v)
            m = float(d.min())
            return [int(i) for i in np.flatnonzero(d <= m * (1 + 1e-12) + 1e-300)]
        self.must = None
        if f.size:
            for a in nearest(lo, 0):
                for b in nearest(hi, f.size - 1):
                    here = set()
                    if b - a >= 2:
                        here = {(l + a, r + a) for (l, r) in local_maxima(y[a:b + 1])}
                    # (a plateau cut by an end of the stretch is judged by the stretch, as find_peaks does)
                    here = {(l, r) for (l, r) in here if all(in_range_strict(f[i], lo, hi) for i in range(l, r + 1))}
                    self.must = here if self.must is None else (self.must & here)
        self.must = sorted(self.must or [])
        self.must_amp = max((y[l] for l, _ in self.must), default=None)

    def judge(self, f_peak, a_peak):
        """list of (kind, message) for a reported (f_peak, a_peak); NaN/None means 'absent'."""
        absent = f_peak is None or (isinstance(f_peak, float) and np.isnan(f_peak)) or \
            (hasattr(f_peak, "dtype") and np.isnan(f_peak))
        problems = []
        if absent:
            if self.must:
                l, r = max(self.must, key=lambda lr: self.y[lr[0]])
                problems.append(("peak-missed", f"no peak reported although {self.f[l]} Hz (amp {self.y[l]}) is an "
                                 f"interior local maximum of the curve restricted to the range"))
            return problems
        hits = np.flatnonzero(self.f == f_peak)
        if hits.size == 0:
            problems.append(("peak-off-grid", f"reported frequency {f_peak} is not a sample of the curve"))
            return problems
        i = int(hits[0])
        if not (a_peak == self.y[i]):
            problems.append(("peak-amplitude-wrong", f"amplitude {a_peak} != curve value {self.y[i]} at {f_peak} Hz"))
        if not in_range_strict(self.f[i], self.lo, self.hi):
            problems.append(("peak-outside-range", f"{f_peak} Hz is not strictly inside ({self.lo}, {self.hi})"))
        if not any(l <= i <= r for (l, r) in self.full):
            problems.append(("peak-not-local-maximum", f"{f_peak} Hz is not a local maximum of the curve"))
        if self.must_amp is not None and self.y[i] < self.must_amp:
            l, r = max(self.must, key=lambda lr: self.y[lr[0]])
            problems.append(("higher-peak-in-range", f"reported {f_peak} Hz (amp {self.y[i]}) but {self.f[l]} Hz "
                             f"(amp {self.y[l]}) is a higher interior local maximum inside the range"))
        return problems

    @property
    def nan_required(self):
        return not self.admissible

    @property
    def nan_forbidden(self):
        return bool(self.must)


def reference_peak(frequency, curve, search_range=(None, None)):
    """A single reference answer (lowest-frequency highest must-find peak, scipy's mid-plateau sample)
    or None. Only used where downstream models need *a* peak; `unique` says whether the oracle
    pins it down (must-find winner equals the only admissible candidate of at least that height)."""
    o = Oracle(frequency, curve, search_range)
    if not o.must:
        return None, None, (not o.admissible)
    best = max(o.y[l] for l, _ in o.must)
    winners = [(l, r) for (l, r) in o.must if o.y[l] == best]
    l, r = winners[0]
    i = (l + r) // 2
    higher_or_equal_elsewhere = [k for k, (pl, pr) in o.admissible.items()
                                 if o.y[k] >= best and not (l <= k <= r)]
    unique = len(winners) == 1 and not higher_or_equal_elsewhere
    return float(o.f[i]), float(o.y[i]), unique
