"""Reference peak search (no scipy, no hvsrpy): local maxima with plateau handling, and the
two-sided value-based oracle of DESIGN C08."""

import numpy as np


def local_maxima(y):
    """[(left, right)] index ranges of the local maxima of y (strict rise before, strict fall after;
    a flat top is one maximum spanning left..right). End samples are never maxima."""
    y = np.asarray(y, dtype=float)
    n = y.size
    out = []
    i = 1
    while i < n - 1:
        if y[i - 1] < y[i]:
            j = i
            while j + 1 < n and y[j + 1] == y[i]:
                j += 1
            if j + 1 < n and y[j + 1] < y[i]:
                out.append((i, j))
            i = j + 1
        else:
            i += 1
    return out


def in_range_strict(f, lo, hi):
    return (lo is None or f > lo) and (hi is None or f < hi)


class Oracle:
    """What may / must be reported for (frequency, curve, range)."""

    def __init__(self, frequency, curve, search_range):
        f = np.asarray(frequency, dtype=float)
        y = np.asarray(curve, dtype=float)
        lo, hi = (None if v is None else float(v) for v in search_range)
        self.f, self.y, self.lo, self.hi = f, y, lo, hi
        self.full = local_maxima(y)
        # admissible: local maxima of the full curve strictly inside the range (any plateau sample)
        self.admissible = {}
        for (l, r) in self.full:
            for i in range(l, r + 1):
                if in_range_strict(f[i], lo, hi):
                    self.admissible[i] = (l, r)
        # must-find: interior local maxima of the curve restricted to lo <= f <= hi
        keep = np.ones(f.size, dtype=bool)
        if lo is not None:
            keep &= f >= lo
        if hi is not None:
            keep &= f <= hi
        idx = np.flatnonzero(keep)
        self.must = []
        if idx.size >= 3 and np.all(np.diff(idx) == 1):
            off = idx[0]
            for (l, r) in local_maxima(y[idx]):
                self.must.append((l + off, r + off))
        self.must_amp = max((y[l] for l, _ in self.must), default=None)

    def judge(self, f_peak, a_peak):
        """list of (kind, message) for a reported (f_peak, a_peak); NaN/None means 'absent'."""
        absent = f_peak is None or (isinstance(f_peak, float) and np.isnan(f_peak)) or \
            (hasattr(f_peak, "dtype") and np.isnan(f_peak))
        problems = []
        if absent:
            if self.must:
                l, r = max(self.must, key=lambda lr: self.y[lr[0]])
                problems.append(("peak-missed", f"no peak reported although {self.f[l]} Hz (amp {self.y[l]}) is an "
                                 f"interior local maximum of the curve restricted to the range"))
            return problems
        hits = np.flatnonzero(self.f == f_peak)
        if hits.size == 0:
            problems.append(("peak-off-grid", f"reported frequency {f_peak} is not a sample of the curve"))
            return problems
        i = int(hits[0])
        if not (a_peak == self.y[i]):
            problems.append(("peak-amplitude-wrong", f"amplitude {a_peak} != curve value {self.y[i]} at {f_peak} Hz"))
        if not in_range_strict(self.f[i], self.lo, self.hi):
            problems.append(("peak-outside-range", f"{f_peak} Hz is not strictly inside ({self.lo}, {self.hi})"))
        if not any(l <= i <= r for (l, r) in self.full):
            problems.append(("peak-not-local-maximum", f"{f_peak} Hz is not a local maximum of the curve"))
        if self.must_amp is not None and self.y[i] < self.must_amp:
            l, r = max(self.must, key=lambda lr: self.y[lr[0]])
            problems.append(("higher-peak-in-range", f"reported {f_peak} Hz (amp {self.y[i]}) but {self.f[l]} Hz "
                             f"(amp {self.y[l]}) is a higher interior local maximum inside the range"))
        return problems

    @property
    def nan_required(self):
        return not self.admissible

    @property
    def nan_forbidden(self):
        return bool(self.must)


def reference_peak(frequency, curve, search_range=(None, None)):
    """A single reference answer (lowest-frequency highest must-find peak, scipy's mid-plateau sample)
    or None. Only used where downstream models need *a* peak; `unique` says whether the oracle
    pins it down (must-find winner equals the only admissible candidate of at least that height)."""
    o = Oracle(frequency, curve, search_range)
    if not o.must:
        return None, None, (not o.admissible)
    best = max(o.y[l] for l, _ in o.must)
    winners = [(l, r) for (l, r) in o.must if o.y[l] == best]
    l, r = winners[0]
    i = (l + r) // 2
    higher_or_equal_elsewhere = [k for k, (pl, pr) in o.admissible.items()
                                 if o.y[k] >= best and not (l <= k <= r)]
    unique = len(winners) == 1 and not higher_or_equal_elsewhere
    return float(o.f[i]), float(o.y[i]), unique
