"""Textbook estimators used as oracles (numpy only, no hvsrpy import).

Unweighted (traditional) and Cheng et al. (2020) azimuth-weighted forms.
"""

import numpy as np


def _canon(dist):
    return {"normal": "normal", "lognormal": "lognormal", "log-normal": "lognormal"}[dist]


def mean(x, dist, axis=None):
    x = np.asarray(x, dtype=float)
    if _canon(dist) == "normal":
        return np.mean(x, axis=axis)
    return np.exp(np.mean(np.log(x), axis=axis))


def std(x, dist, axis=None):
    x = np.asarray(x, dtype=float)
    if _canon(dist) == "lognormal":
        x = np.log(x)
    return np.std(x, axis=axis, ddof=1)


def nth(m, s, n, dist):
    if _canon(dist) == "normal":
        return m + n * s
    return np.exp(np.log(m) + n * s)


def cov(f, a, dist):
    f = np.asarray(f, dtype=float)
    a = np.asarray(a, dtype=float)
    if _canon(dist) == "lognormal":
        f, a = np.log(f), np.log(a)
    df, da = f - f.mean(), a - a.mean()
    n = f.size
    return np.array([[df @ df, df @ da], [da @ df, da @ da]]) / (n - 1)


# -- azimuth-weighted (Cheng et al. 2020): w_i = 1 / (n_azimuths * n_accepted(azimuth of i)) ----
def weights(counts):
    counts = np.asarray(counts, dtype=int)
    naz = counts.size
    return np.concatenate([np.full(c, 1.0 / (naz * c)) for c in counts])


def wmean(x, w, dist, axis=0):
    x = np.asarray(x, dtype=float)
    if _canon(dist) == "lognormal":
        x = np.log(x)
    w = np.asarray(w, dtype=float)
    ww = w.reshape((-1,) + (1,) * (x.ndim - 1))
    m = np.sum(ww * x, axis=0) / np.sum(w)
    return np.exp(m) if _canon(dist) == "lognormal" else m


def wstd(x, w, dist):
    x = np.asarray(x, dtype=float)
    if _canon(dist) == "lognormal":
        x = np.log(x)
    w = np.asarray(w, dtype=float)
    ww = w.reshape((-1,) + (1,) * (x.ndim - 1))
    mu = np.sum(ww * x, axis=0) / np.sum(w)
    return np.sqrt(np.sum(ww * (x - mu) ** 2, axis=0) / (1.0 - np.sum(w ** 2)))


def wcov(f, a, w, dist):
    f = np.asarray(f, dtype=float)
    a = np.asarray(a, dtype=float)
    if _canon(dist) == "lognormal":
        f, a = np.log(f), np.log(a)
    w = np.asarray(w, dtype=float)
    mf, ma = np.sum(w * f) / np.sum(w), np.sum(w * a) / np.sum(w)
    df, da = f - mf, a - ma
    den = 1.0 - np.sum(w ** 2)
    return np.array([[np.sum(w * df * df), np.sum(w * df * da)], [np.sum(w * da * df), np.sum(w * da * da)]]) / den
