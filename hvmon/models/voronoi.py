"""Nearest-sensor area fractions inside a convex boundary (own code: monotone-chain hull,
Sutherland-Hodgman half-plane clipping, shoelace area; no scipy / shapely / Qhull)."""

import numpy as np


def convex_hull(points):
    pts = sorted(set((float(x), float(y)) for x, y in points))
    if len(pts) < 3:
        return np.array(pts)

    def cross(o, a, b):
        return (a[0] - o[0]) * (b[1] - o[1]) - (a[1] - o[1]) * (b[0] - o[0])
    lower, upper = [], []
    for p in pts:
        while len(lower) >= 2 and cross(lower[-2], lower[-1], p) <= 0:
            lower.pop()
        lower.append(p)
    for p in reversed(pts):
        while len(upper) >= 2 and cross(upper[-2], upper[-1], p) <= 0:
            upper.pop()
        upper.append(p)
    return np.array(lower[:-1] + upper[:-1])          # counter-clockwise


def area(poly):
    if len(poly) < 3:
        return 0.0
    x, y = poly[:, 0], poly[:, 1]
    return 0.5 * float(np.sum(x * np.roll(y, -1) - np.roll(x, -1) * y))


def clip_halfplane(poly, a, b):
    """Keep the part of convex polygon poly with a.x <= b (Sutherland-Hodgman, one plane)."""
    if len(poly) == 0:
        return poly
    out = []
    d = poly @ a - b
    n = len(poly)
    for i in range(n):
        j = (i + 1) % n
        pi, pj, di, dj = poly[i], poly[j], d[i], d[j]
        if di <= 0:
            out.append(pi)
        if (di < 0 < dj) or (dj < 0 < di):
            t = di / (di - dj)
            out.append(pi + t * (pj - pi))
    return np.array(out) if out else np.empty((0, 2))


def signed_distance_inside(hull, p):
    """min over hull edges of the inward distance of p (negative = outside)."""
    n = len(hull)
    best = np.inf
    for i in range(n):
        a, b = hull[i], hull[(i + 1) % n]
        e = b - a
        nrm = np.array([-e[1], e[0]]) / (np.hypot(*e) + 1e-300)   # inward for CCW hull
        best = min(best, float((p - a) @ nrm))
    return best


def weights(coordinates, boundary):
    """(weights, indices, ambiguous) - ambiguous = some sensor within 1e-9*extent of the hull edge."""
    coords = np.asarray(coordinates, dtype=float)
    hull = convex_hull(np.asarray(boundary, dtype=float))
    ext = float(max(np.ptp(hull[:, 0]), np.ptp(hull[:, 1])))
    # work in coordinates relative to the hull centroid (conditioning), same geometry
    c = hull.mean(axis=0)
    H = hull - c
    P = coords - c
    dist = np.array([signed_distance_inside(H, p) for p in P])
    ambiguous = bool(np.any(np.abs(dist) <= 1e-9 * ext))
    idx = [i for i in range(len(P)) if dist[i] > 0]
    total = area(H)
    w = []
    for i in idx:
        poly = H.copy()
        for j in idx:
            if j == i:
                continue
            # |x-pi|^2 <= |x-pj|^2  <=>  2(pj-pi).x <= |pj|^2-|pi|^2
            a = 2.0 * (P[j] - P[i])
            b = float(P[j] @ P[j] - P[i] @ P[i])
            poly = clip_halfplane(poly, a, b)
            if len(poly) < 3:
                break
        w.append(area(poly) / total if len(poly) >= 3 else 0.0)
    return np.array(w), idx, ambiguous
