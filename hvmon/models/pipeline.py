"""Independent reference pipeline for HVSR curves (numpy/scipy only, no hvsrpy import).

curve = smooth(combine(|FFT(taper*ns)|, |FFT(taper*ew)|)) / smooth(|FFT(taper*vt)|)
evaluated at the requested centre frequencies, for one window at a time.
"""

import numpy as np
from scipy.signal.windows import tukey

from . import smoothing as SM

ALIASES = {
    "quadratic_mean": "squared_average", "root_mean_square": "squared_average",
    "effective_amplitude_spectrum": "squared_average", "vector_summation": "total_horizontal_energy",
    "directional_energy": "single_azimuth",
}
FREQ_METHODS = ("arithmetic_mean", "squared_average", "quadratic_mean", "root_mean_square",
                "effective_amplitude_spectrum", "geometric_mean", "total_horizontal_energy",
                "vector_summation", "maximum_horizontal_value")


def canonical(method):
    return ALIASES.get(method, method)


def combine(method, a, b):
    m = canonical(method)
    if m == "arithmetic_mean":
        return 0.5 * (a + b)
    if m == "squared_average":
        return np.sqrt(0.5 * (a ** 2 + b ** 2))
    if m == "geometric_mean":
        return np.sqrt(a * b)
    if m == "total_horizontal_energy":
        return np.hypot(a, b)
    if m == "maximum_horizontal_value":
        return np.maximum(a, b)
    raise KeyError(method)


def closed_form(method, A, B, C, azimuth=None, azimuths=None, percentile=None):
    """Flat HVSR level for ns=A*s, ew=B*s, vt=C*s."""
    a, b, c = abs(A), abs(B), abs(C)
    m = canonical(method)
    if m in ("arithmetic_mean", "squared_average", "geometric_mean", "total_horizontal_energy",
             "maximum_horizontal_value"):
        return float(combine(m, np.array(a), np.array(b)) / c)
    if m == "single_azimuth":
        r = np.radians(azimuth)
        return float(abs(A * np.cos(r) + B * np.sin(r)) / c)
    if m == "rotdpp":
        r = np.radians(np.asarray(azimuths, dtype=float))
        return float(np.percentile(np.abs(A * np.cos(r) + B * np.sin(r)), percentile) / c)
    if m == "diffuse_field":
        return float(np.sqrt(A * A + B * B) / c)
    raise KeyError(method)


def amp_spectrum(x, n, alpha):
    x = np.asarray(x, dtype=float)
    return np.abs(np.fft.rfft(x * tukey(x.size, alpha), n))


def psd(windows, dt, n, alpha, double_nyquist=True):
    """One-sided Welch PSD of equal-length windows (list of 1-D arrays)."""
    L = len(windows[0])
    w = tukey(L, alpha)
    U = np.mean(w ** 2)
    acc = np.zeros(n // 2 + 1)
    for x in windows:
        X = np.fft.rfft(np.asarray(x, dtype=float) * w, n)
        acc += X.real ** 2 + X.imag ** 2
    p = 2.0 * acc / (U * L * (1.0 / dt) * len(windows))
    if not double_nyquist and n % 2 == 0:
        p[-1] *= 0.5
    return p


class Curve:
    def __init__(self, base, alts, tol, skip):
        self.base, self.alts, self.tol, self.skip = base, alts, tol, skip

    def mismatches(self, real):
        real = np.asarray(real, dtype=float)
        bad = []
        for j in range(self.base.size):
            if j in self.skip:
                continue
            cands = [self.base[j]] + list(self.alts.get(j, []))
            if not any((abs(real[j] - c) <= self.tol[j]) or (real[j] == c) for c in cands if np.isfinite(c)):
                bad.append(j)
        return bad


def _ratio(res, h_of_rows, rtol=1e-9):
    """Ratio curve from a smoothing Result whose last row is the vertical; h_of_rows maps the
    horizontal rows (k, nfc) -> (nfc,)."""
    nfc = res.base.shape[1]
    H = h_of_rows(res.base[:-1])
    V = res.base[-1]
    with np.errstate(all="ignore"):
        base = H / V
    scaleH = np.max(res.scale[:-1], axis=0)
    scaleV = res.scale[-1]
    with np.errstate(all="ignore"):
        tol = rtol * (np.maximum(scaleH, np.abs(H)) + np.abs(base) * np.maximum(scaleV, np.abs(V))) / np.abs(V)
    skip = set(res.unbounded)
    for j in range(nfc):
        if res.empty[j] or not np.isfinite(base[j]) or abs(V[j]) < 1e-6 * max(scaleV[j], 1e-300) \
                or not np.isfinite(tol[j]):
            skip.add(j)
    alts = {}
    for j, lst in res.alts.items():
        out = []
        for alt in lst:
            h = h_of_rows(alt[:-1].reshape(-1, 1))[0]
            with np.errstate(all="ignore"):
                out.append(h / alt[-1])
        alts[j] = out
    return Curve(base, alts, tol, skip)


def hvsr_curve(ns, ew, vt, dt, n_fft, alpha, method, op, bandwidth, fcs,
               azimuth=None, azimuths=None, percentile=None):
    """Reference curve of one window for every traditional-type method."""
    f = np.fft.rfftfreq(n_fft, dt)
    fcs = np.asarray(fcs, dtype=float)
    m = canonical(method)
    V = amp_spectrum(vt, n_fft, alpha)
    if m == "single_azimuth":
        r = np.radians(azimuth)
        h = np.asarray(ns, dtype=float) * np.cos(r) + np.asarray(ew, dtype=float) * np.sin(r)
        rows = np.vstack([amp_spectrum(h, n_fft, alpha), V])
        return _ratio(SM.smooth(op, f, rows, fcs, bandwidth), lambda H: H[0])
    if m == "rotdpp":
        hs = []
        for az in azimuths:
            r = np.radians(az)
            hs.append(amp_spectrum(np.asarray(ns, dtype=float) * np.cos(r) + np.asarray(ew, dtype=float) * np.sin(r), n_fft, alpha))
        rows = np.vstack(hs + [V])
        return _ratio(SM.smooth(op, f, rows, fcs, bandwidth), lambda H: np.percentile(H, percentile, axis=0))
    N = amp_spectrum(ns, n_fft, alpha)
    E = amp_spectrum(ew, n_fft, alpha)
    rows = np.vstack([combine(m, N, E), V])
    return _ratio(SM.smooth(op, f, rows, fcs, bandwidth), lambda H: H[0])


def diffuse_field_curve(windows, dt, n_fft, alpha, op, bandwidth, fcs):
    """windows: list of (ns, ew, vt). Returns two admissible Curves (Nyquist bin doubled or not)."""
    f = np.fft.rfftfreq(n_fft, dt)
    out = []
    for dbl in (True, False):
        pn = psd([w[0] for w in windows], dt, n_fft, alpha, dbl)
        pe = psd([w[1] for w in windows], dt, n_fft, alpha, dbl)
        pv = psd([w[2] for w in windows], dt, n_fft, alpha, dbl)
        res = SM.smooth(op, f, np.vstack([pn + pe, pv]), np.asarray(fcs, dtype=float), bandwidth)
        c = _ratio(res, lambda H: H[0])
        with np.errstate(all="ignore"):
            sq = np.sqrt(c.base)
            c.tol = c.tol / (2 * np.maximum(sq, 1e-300)) + 1e-12 * sq
            c.skip |= {j for j in range(c.base.size) if not (c.base[j] > 0)}
            c.alts = {j: [np.sqrt(a) if a >= 0 else np.nan for a in lst] for j, lst in c.alts.items()}
            c.base = sq
        out.append(c)
    return out
