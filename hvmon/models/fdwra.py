"""Reference model of the frequency-domain window-rejection algorithm of Cox et al. (2020).

numpy only; built on models/stats.py and models/peaks.py.  Every decision carries a margin; the
result says whether the run was decidable (all margins >= MARGIN and every quantity defined).
"""

import numpy as np

from . import stats as MS
from .peaks import reference_peak

MARGIN = 1e-9


class Outcome:
    def __init__(self):
        self.iterations = None
        self.valid = None            # final accept mask (peak mask)
        self.decidable = True
        self.reason = None
        self.min_margin = np.inf
        self.history = []            # accept mask before each iteration
        self.undefined = False       # a statistic was undefined (too few accepted peaks / no mean-curve peak)


def run(frequency, amplitude, peaks_f, valid_window, valid_peak, n, max_iterations,
        dist_fn, dist_mc, search_range):
    f = np.asarray(frequency, dtype=float)
    amp = np.asarray(amplitude, dtype=float)
    pf = np.asarray(peaks_f, dtype=float)
    vw = np.array(valid_window, dtype=bool)
    vp = np.array(valid_peak, dtype=bool)
    out = Outcome()

    def undecidable(reason):
        out.decidable = False
        out.reason = out.reason or reason

    def margin(m):
        out.min_margin = min(out.min_margin, m)
        if m < MARGIN:
            undecidable("decision margin below 1e-9")

    def stats_now():
        acc = vp & ~np.isnan(pf)
        if acc.sum() < 2 or vw.sum() < 1:
            return None
        mu = float(MS.mean(pf[acc], dist_fn))
        sd = float(MS.std(pf[acc], dist_fn))
        if vw.sum() == 1:
            mc = amp[vw][0]
        else:
            mc = MS.mean(amp[vw], dist_mc, axis=0)
        fp, ap, unique = reference_peak(f, mc, tuple(search_range))
        if fp is None:
            return None
        if not unique:
            undecidable("mean-curve peak not unique (ties)")
        return mu, sd, fp

    for it in range(1, int(max_iterations) + 1):
        out.history.append(vp.copy())
        before = stats_now()
        if before is None:
            out.undefined = True
            undecidable("undefined statistic (fewer than two accepted peaks or mean curve without a peak)")
            break
        mu_b, sd_b, mc_b = before
        d_b = abs(mu_b - mc_b)
        lo = float(MS.nth(mu_b, sd_b, -n, dist_fn))
        hi = float(MS.nth(mu_b, sd_b, +n, dist_fn))
        for i in np.flatnonzero(vp):
            p = pf[i]
            if np.isnan(p):
                vw[i] = vp[i] = False
                continue
            scale = max(abs(lo), abs(hi), abs(p), 1e-300)
            margin(min(abs(p - lo), abs(p - hi)) / scale)
            keep = (p > lo) and (p < hi)
            if not keep:
                vw[i] = vp[i] = False
        after = stats_now()
        if after is None:
            out.undefined = True
            undecidable("undefined statistic after a rejection pass")
            break
        mu_a, sd_a, mc_a = after
        d_a = abs(mu_a - mc_a)
        # zero tests (exact zeros end the run; tiny non-zero values are numerically ambiguous)
        # (the code under test sums in another order: an exact zero here may be 1e-16 there and vice versa, so a
        # vanishing quantity is ambiguous whether or not it is exactly zero in this model)
        for v, s in ((d_b, max(abs(mu_b), 1e-300)), (sd_b, max(abs(mu_b), 1.0)), (sd_a, max(abs(mu_a), 1.0))):
            if v / s < 1e-12:
                undecidable("quantity indistinguishable from zero")
        if d_b == 0 or sd_b == 0 or sd_a == 0:
            out.iterations = it
            break
        d_diff = abs(d_a - d_b) / d_b
        s_diff = abs(sd_a - sd_b)
        margin(abs(d_diff - 0.01) / 0.01 if d_diff != 0 or True else np.inf)
        margin(abs(s_diff - 0.01) / 0.01)
        # the relative change is ill-conditioned when d_before is itself rounding noise
        if d_b / max(abs(mu_b), 1e-300) < 1e-9:
            undecidable("|mean fn - mean-curve peak| is at rounding level")
        if d_diff < 0.01 and s_diff < 0.01:
            out.iterations = it
            break
    else:
        out.iterations = int(max_iterations)
    if out.iterations is None and out.decidable:
        out.iterations = int(max_iterations)
    out.valid = vp
    out.valid_window = vw
    return out
