"""SESAME (2004) reliability and clarity criteria, written from the guideline text (numpy only).

Every threshold comparison carries a margin; a verdict whose margin is below 1e-9 is returned as
None (ambiguous: either outcome admissible).  At an exact band edge (0.2, 0.5, 1, 2 Hz) the verdicts
for both adjacent columns of the guideline's table are computed and a verdict is None when they differ.
"""

import numpy as np

from .peaks import local_maxima

TOL = 1e-9
TABLE = [(0.2, 0.25, 3.0), (0.5, 0.20, 2.5), (1.0, 0.15, 2.0), (2.0, 0.10, 1.78), (np.inf, 0.05, 1.58)]


def lt(a, b):
    """a < b with ambiguity."""
    if abs(a - b) <= TOL * max(abs(a), abs(b), 1e-300):
        return None
    return bool(a < b)


def gt(a, b):
    r = lt(b, a)
    return r


def columns(f0):
    """Admissible (epsilon, theta) columns of the guideline's table for f0.

    The table's frequency ranges are "< 0.2 | 0.2 - 0.5 | 0.5 - 1.0 | 1.0 - 2.0 | > 2.0".  The outer columns are strict,
    so exactly 0.2 Hz belongs to "0.2 - 0.5" and exactly 2.0 Hz to "1.0 - 2.0"; the inner edges 0.5 and 1.0 Hz are listed
    in two columns each, and there both are admissible.  (Values within TOL of an edge but not equal to it are ambiguous
    for every edge.)"""
    out = []
    for k, (edge, eps, theta) in enumerate(TABLE):
        if f0 < edge * (1 - TOL):
            out.append((eps, theta))
            break
        if abs(f0 - edge) <= TOL * edge:
            exact = (f0 == edge)
            if exact and edge == 0.2:
                out.append(TABLE[k + 1][1:])
            elif exact and edge == 2.0:
                out.append((eps, theta))
            else:
                out.append((eps, theta))
                out.append(TABLE[k + 1][1:])
            break
    return out


def highest_peaks(y):
    """Indices (all samples of the winning plateaus) of the highest local maximum; more than one
    plateau means a tie."""
    mx = local_maxima(y)
    if not mx:
        return []
    best = max(y[l] for l, _ in mx)
    return [(l, r) for (l, r) in mx if y[l] == best]


def combine(vals):
    vals = list(vals)
    if any(v is None for v in vals):
        return None
    return vals[0] if all(v == vals[0] for v in vals) else None


def reliability(f, mean, std, lw, nw, p):
    """Verdicts for peak index p on (f, mean, std) (already restricted to the curve to be used)."""
    f0 = f[p]
    sig = np.exp(std)
    v1 = gt(f0, 10.0 / lw)
    v2 = gt(lw * nw * f0, 200.0)
    band = (f > 0.5 * f0) & (f < 2 * f0)
    edge = (np.abs(f - 0.5 * f0) <= TOL * f0) | (np.abs(f - 2 * f0) <= TOL * f0)
    smax_opts = [np.max(sig[band & ~edge])] if (band & ~edge).any() else []
    if (edge).any():
        smax_opts.append(np.max(sig[band | edge]))
    limits = [2.0] if f0 > 0.5 * (1 + TOL) else [3.0] if f0 < 0.5 * (1 - TOL) else [2.0, 3.0]
    v3 = combine([lt(s, lim) for s in smax_opts for lim in limits]) if smax_opts else None
    return [v1, v2, v3]


def clarity(f, mean, std, fn_std, p):
    f0, a0 = f[p], mean[p]
    sig = np.exp(std)

    def exists_below(mask, edge_mask):
        sure = mask & ~edge_mask
        opts = []
        for m in ((sure,) if not edge_mask.any() else (sure, sure | edge_mask)):
            vals = mean[m]
            if vals.size == 0:
                opts.append(False)
                continue
            r = [lt(v, a0 / 2) for v in vals]
            if any(x is True for x in r):
                opts.append(True)
            elif any(x is None for x in r):
                opts.append(None)
            else:
                opts.append(False)
        return combine(opts)
    lo_edge = np.abs(f - f0 / 4) <= TOL * f0
    hi_edge = np.abs(f - 4 * f0) <= TOL * f0
    v1 = exists_below((f < f0) & (f > f0 / 4), lo_edge)
    v2 = exists_below((f > f0) & (f < 4 * f0), hi_edge)
    v3 = gt(a0, 2.0)
    # iv) peaks of the curves A*sigma and A/sigma within 5 % of f0
    opts = []
    for curve in (mean * sig, mean / sig):
        w = highest_peaks(curve)
        if not w:
            opts.append(False)       # no peak on that curve: cannot be within 5 %
            continue
        per = []
        for (l, r) in w:
            for i in range(l, r + 1):
                a, b = gt(f[i], 0.95 * f0), lt(f[i], 1.05 * f0)
                per.append(None if (a is None or b is None) else (a and b))
        opts.append(combine(per))
    if any(o is False for o in opts):
        v4 = False
    elif any(o is None for o in opts):
        v4 = None
    else:
        v4 = True
    cols = columns(f0)
    v5 = combine([lt(fn_std, eps * f0) for eps, _ in cols])
    v6 = combine([lt(sig[p], th) for _, th in cols])
    return [v1, v2, v3, v4, v5, v6]
