"""Reference STA/LTA classification (numpy only): clearly-keep / clearly-reject / ambiguous.

The statement is deliberately tolerant of how seconds are converted to sample counts, so every
admissible count (round / floor of seconds/dt, and one less) and both admissible LTA prefixes are
evaluated; a window is *clearly* kept (rejected) only if it is under every admissible reading with a
1 % margin.
"""

import numpy as np


def counts(seconds, dt):
    r = seconds / dt
    c = {int(round(r)), int(np.floor(r)), int(round(r)) - 1, int(np.floor(r)) - 1}
    return sorted(x for x in c if x >= 1)


def ratios(x, nsta, nlta):
    x = np.abs(np.asarray(x, dtype=float))
    n = x.size
    k = n // nsta
    if k < 1:
        return []
    short = x[:k * nsta]
    sta = short.reshape(k, nsta).mean(axis=1)
    out = []
    for src in (short, x):
        lta = src[:nlta].mean()
        if lta > 0:
            out.append(sta / lta)
    return out


def classify(x, dt, sta_seconds, lta_seconds, lo, hi, margin=0.01):
    """'keep' | 'reject' | 'ambiguous' for one component."""
    verdicts = set()
    for ns in counts(sta_seconds, dt):
        for nl in counts(lta_seconds, dt):
            if ns > len(x) or nl > len(x):
                continue
            for r in ratios(x, ns, nl):
                if r.size == 0:
                    continue
                mx, mn = r.max(), r.min()
                if mx < hi * (1 - margin) and mn > lo * (1 + margin):
                    verdicts.add("keep")
                elif mx > hi * (1 + margin) or mn < lo * (1 - margin):
                    verdicts.add("reject")
                else:
                    verdicts.add("ambiguous")
    if verdicts == {"keep"}:
        return "keep"
    if verdicts == {"reject"}:
        return "reject"
    return "ambiguous"
