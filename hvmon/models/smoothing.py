"""Independent reference model of the seven smoothing operators (numpy only, no hvsrpy import).

Written from the kernel definitions, vectorised over the frequency axis (the code under test
loops sample by sample inside numba).  Every inclusion decision carries a margin; samples whose
margin is below EDGE_TOL are *ambiguous* and the model returns every admissible output
(<= 2**MAX_AMBIGUOUS alternatives) instead of one (DESIGN 2.3).
"""

import itertools

import numpy as np

EDGE_TOL = 1e-9
MAX_AMBIGUOUS = 4
FMIN = 1e-6

OPERATORS = ("konno_and_ohmachi", "parzen", "savitzky_and_golay", "linear_rectangular",
             "log_rectangular", "linear_triangular", "log_triangular")
NONNEGATIVE = tuple(o for o in OPERATORS if o != "savitzky_and_golay")


def _sinc4(x):
    with np.errstate(all="ignore"):
        s = np.where(x == 0, 1.0, np.sin(x) / np.where(x == 0, 1.0, x))
    return s ** 4


def _window(name, f, fc, b):
    """weights, inside-mask and relative edge margin of every sample of f for centre fc."""
    if name == "konno_and_ohmachi":
        r = f / fc
        lo, hi = 10.0 ** (-3.0 / b), 10.0 ** (3.0 / b)
        inside = (r >= lo) & (r <= hi)
        margin = np.minimum(np.abs(r - lo) / lo, np.abs(r - hi) / hi)
        with np.errstate(all="ignore"):
            w = _sinc4(b * np.log10(r))
    elif name == "parzen":
        a = np.pi * 280.0 / 302.0
        d = f - fc
        lim = np.sqrt(6.0) * a / b
        inside = np.abs(d) <= lim
        margin = np.abs(np.abs(d) - lim) / lim
        w = _sinc4(a * d / b)
    elif name in ("linear_rectangular", "linear_triangular"):
        d = np.abs(f - fc)
        lim = b / 2.0
        inside = d <= lim
        margin = np.abs(d - lim) / lim
        w = np.ones_like(f) if name == "linear_rectangular" else 1.0 - d / lim
    elif name in ("log_rectangular", "log_triangular"):
        r = f / fc
        lo, hi = 10.0 ** (-b / 2.0), 10.0 ** (b / 2.0)
        inside = (r >= lo) & (r <= hi)
        margin = np.minimum(np.abs(r - lo) / lo, np.abs(r - hi) / hi)
        with np.errstate(all="ignore"):
            w = np.ones_like(f) if name == "log_rectangular" else 1.0 - np.abs(np.log10(r)) / (b / 2.0)
    else:
        raise KeyError(name)
    return w, inside, margin


def _sig_bits(x):
    """number of significant bits of the float x (0 for 0)."""
    from fractions import Fraction
    n = abs(Fraction(float(x)).numerator)
    while n and n % 2 == 0:
        n //= 2
    return n.bit_length()


def exact_edge_ties(f, fc, b):
    """Boolean mask: samples of f that lie EXACTLY (in rational arithmetic on the float values) on the edge
    |f - fc| = b/2 of a linear window, with f, fc and b all short dyadic numbers of similar magnitude - so that every
    direct floating-point formulation of the comparison (f - fc, fc + b/2, 2|f - fc| ...) is computed without rounding.
    There the only thing that decides is the convention, and the support of the windows is closed (|f - fc| <= b/2),
    as every operator of the library has it; elsewhere a sample within EDGE_TOL of an edge stays two-valued."""
    from fractions import Fraction
    f = np.asarray(f, dtype=float)
    out = np.zeros(f.shape, dtype=bool)
    if not (np.isfinite(fc) and np.isfinite(b)) or b <= 0 or _sig_bits(fc) > 36 or _sig_bits(b) > 36:
        return out
    C, H = Fraction(float(fc)), Fraction(float(b)) / 2
    for i in np.flatnonzero(np.abs(np.abs(f - fc) - b / 2.0) <= 1e-9 * b):
        x = float(f[i])
        if x <= 0 or _sig_bits(x) > 36:
            continue
        mags = [abs(x), abs(float(fc)), float(b)]
        if max(mags) / min(mags) > 4096:
            continue
        out[i] = abs(Fraction(x) - C) == H
    return out


def _half_width_hz(name, fc, b):
    """Conservative bound of the window in Hz around fc: (f_lo, f_hi)."""
    if name == "konno_and_ohmachi":
        return fc * 10.0 ** (-3.0 / b), fc * 10.0 ** (3.0 / b)
    if name == "parzen":
        lim = np.sqrt(6.0) * (np.pi * 280.0 / 302.0) / b
        return fc - lim, fc + lim
    if name.startswith("linear"):
        return fc - b / 2.0, fc + b / 2.0
    return fc * 10.0 ** (-b / 2.0), fc * 10.0 ** (b / 2.0)


def sg_weights(m):
    """Least-squares quadratic/cubic smoothing weights for an m-point window (normal equations)."""
    h = (m - 1) // 2
    x = np.arange(-h, h + 1, dtype=float)
    deg = min(3, m - 1)
    A = np.vander(x, deg + 1, increasing=True)
    # value of the fitted polynomial at x=0 is coefficient 0: first row of (A^T A)^-1 A^T
    ata = A.T @ A
    row = np.linalg.solve(ata, A.T)[0]
    return row


class Result:
    """Model output: base values plus admissible alternatives per centre frequency."""

    def __init__(self, nrows, nfc):
        self.base = np.zeros((nrows, nfc))
        self.alts = {}          # fc index -> list of (nrows,) arrays
        self.unbounded = set()  # fc indices with too many ambiguous samples (not judged)
        self.scale = np.zeros((nrows, nfc))  # max |contributing sample| (for absolute tolerance)
        self.empty = np.zeros(nfc, dtype=bool)
        self.lo = np.full((nrows, nfc), np.nan)   # min contributing sample
        self.hi = np.full((nrows, nfc), np.nan)   # max contributing sample


def smooth(name, frequencies, spectrum, fcs, bandwidth):
    f = np.asarray(frequencies, dtype=float)
    s = np.atleast_2d(np.asarray(spectrum, dtype=float))
    fcs = np.asarray(fcs, dtype=float)
    nrows, nf = s.shape
    res = Result(nrows, fcs.size)

    if name == "savitzky_and_golay":
        m = int(bandwidth)
        h = (m - 1) // 2
        w = sg_weights(m)
        df = (f[-1] - f[0]) / (nf - 1)
        for j, fc in enumerate(fcs):
            q = (fc - f[0]) / df
            cands = [int(np.floor(q + 0.5))]
            frac = q - np.floor(q)
            if abs(frac - 0.5) < 1e-6:
                cands = [int(np.floor(q)), int(np.floor(q)) + 1]
            vals = []
            for idx in cands:
                if idx - h < 1 or idx + h > nf - 1:
                    vals.append(np.zeros(nrows))
                    res.empty[j] = True
                else:
                    seg = s[:, idx - h: idx + h + 1]
                    vals.append(seg @ w)
                    res.scale[:, j] = np.maximum(res.scale[:, j], np.max(np.abs(seg), axis=1))
            res.base[:, j] = vals[0]
            if len(vals) > 1:
                res.alts[j] = vals[1:]
        return res

    valid = f >= FMIN
    sorted_f = bool(np.all(np.diff(f) >= 0))
    for j, fc in enumerate(fcs):
        if fc < FMIN:
            res.empty[j] = True
            continue
        if sorted_f:
            lo_hz, hi_hz = _half_width_hz(name, fc, bandwidth)
            i0 = max(0, int(np.searchsorted(f, lo_hz, "left")) - 2)
            i1 = min(nf, int(np.searchsorted(f, hi_hz, "right")) + 2)
        else:
            i0, i1 = 0, nf
        fs = f[i0:i1]
        if fs.size == 0:
            res.empty[j] = True
            continue
        w, inside, margin = _window(name, fs, fc, bandwidth)
        ok = valid[i0:i1]
        near_centre = ok & (np.abs(fs - fc) < 1e-6) & (fs != fc) & (name in ("konno_and_ohmachi", "parzen"))
        amb_edge = ok & (margin < EDGE_TOL)
        if name == "linear_rectangular" and amb_edge.any():
            amb_edge &= ~exact_edge_ties(fs, fc, bandwidth)      # exact ties: closed support, decided (see there)
        sure = ok & inside & ~amb_edge & ~near_centre
        seg = s[:, i0:i1]
        w = np.where(np.isfinite(w), w, 0.0)

        def value(extra_idx, extra_w):
            ww = np.where(sure, w, 0.0)
            for i, wi in zip(extra_idx, extra_w):
                ww[i] = wi
            tot = ww.sum()
            if tot > 0:
                return seg @ ww / tot, False
            return np.zeros(nrows), True

        amb_idx = list(np.flatnonzero(amb_edge | near_centre))
        if len(amb_idx) > MAX_AMBIGUOUS:
            res.unbounded.add(j)
            continue
        options = []
        for i in amb_idx:
            if near_centre[i]:
                options.append((w[i], 1.0))
            else:
                # an edge sample may enter with any tiny non-negative weight (triangular kernels vanish there)
                options.append((0.0, max(w[i], 1e-12)))
        combos = list(itertools.product(*options)) if options else [()]
        vals = []
        for c in combos:
            v, empty = value(amb_idx, c)
            vals.append(v)
        # base = the combination a straightforward reading gives (inside -> weight, near centre -> formula)
        base_choice = tuple((w[i] if (near_centre[i] or inside[i]) else 0.0) for i in amb_idx)
        v0, e0 = value(amb_idx, base_choice)
        res.base[:, j] = v0
        res.empty[j] = e0
        if len(vals) > 1:
            res.alts[j] = vals
        contrib = sure | (amb_edge & inside) | near_centre
        if contrib.any():
            c = seg[:, contrib]
            res.scale[:, j] = np.max(np.abs(c), axis=1)
            res.lo[:, j] = np.min(c, axis=1)
            res.hi[:, j] = np.max(c, axis=1)
    return res


def mismatches(real, res, rtol=1e-9):
    """Indices (row, fc) where the real output is not one of the admissible model outputs."""
    real = np.asarray(real, dtype=float)
    bad = []
    tol = rtol * np.maximum(res.scale, np.abs(res.base)) + 1e-300
    d = np.abs(real - res.base)
    wrong = ~(d <= tol)
    for j in np.flatnonzero(wrong.any(axis=0)):
        if j in res.unbounded:
            continue
        okj = False
        for alt in res.alts.get(j, []):
            t = rtol * np.maximum(res.scale[:, j], np.abs(alt)) + 1e-300
            if np.all(np.abs(real[:, j] - alt) <= t):
                okj = True
                break
        if not okj:
            rows = np.flatnonzero(wrong[:, j])
            bad.append((int(rows[0]), int(j)))
    return bad
