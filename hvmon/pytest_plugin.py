"""pytest plugin: run the repository's own tests with the C08 / C18 class invariants attached.

Only the monitors' verdicts are read; the tests' own results are ignored.  Enabled with
`-p hvmon.pytest_plugin`; observations go to the JSON file named by HVMON_PLUGIN_OUT.
"""

import json
import os

_ctx = None


def pytest_configure(config):
    global _ctx
    from .ctx import Ctx
    from .monitors import C08, C18
    _ctx = Ctx("C08", "thorough", 0)
    _ctx.begin_case("repository-tests", -1)
    C08.setup(_ctx)
    C18.setup(_ctx)


def pytest_runtest_setup(item):
    if _ctx is not None:
        _ctx._case_info = {"test": item.nodeid}


def pytest_sessionfinish(session, exitstatus):
    out = os.environ.get("HVMON_PLUGIN_OUT")
    if out and _ctx is not None:
        with open(out, "w") as f:
            json.dump(_ctx.result(), f)
