"""Read a result object the way a post-processing script does, edit what was handed out, look at the object again.

A statistic or a peak vector that a result object *computes* belongs to the caller: normalising a mean curve for a
plot, sorting the peak frequencies, converting to period in place are ordinary steps after processing.  None of
them may change the object that produced them (its curves, masks, peaks, metadata) nor what the same accessor
returns the next time.  Attributes that *are* the object's data (``HvsrTraditional.frequency`` / ``.amplitude``,
``HvsrAzimuthal.hvsrs``) are not touched here: editing those is editing the object.

Used by C03 (rows stay what process() returned), C08 (peaks stay the ones of the last update) and C11.
"""

import numpy as np

from .snap import snap, diff


def _accessors(obj, distribution):
    name = type(obj).__name__
    acc = [("peak_frequencies", lambda: obj.peak_frequencies),
           ("peak_amplitudes", lambda: obj.peak_amplitudes),
           ("mean_curve", lambda: obj.mean_curve(distribution)),
           ("std_curve", lambda: obj.std_curve(distribution)),
           ("nth_std_curve(+1)", lambda: obj.nth_std_curve(1, distribution)),
           ("nth_std_curve(-1)", lambda: obj.nth_std_curve(-1, distribution)),
           ("mean_curve_peak", lambda: obj.mean_curve_peak(distribution))]
    if name == "HvsrAzimuthal":
        acc += [("mean_curve_by_azimuth", lambda: obj.mean_curve_by_azimuth(distribution)),
                ("mean_curve_peak_by_azimuth", lambda: obj.mean_curve_peak_by_azimuth(distribution))]
    if name == "HvsrDiffuseField":
        acc = [("peak_frequency", lambda: obj.peak_frequency), ("peak_amplitude", lambda: obj.peak_amplitude)]
    return acc


def _arrays(value):
    if isinstance(value, np.ndarray):
        yield value
    elif isinstance(value, (list, tuple)):
        for v in value:
            yield from _arrays(v)


def _copy(value):
    if isinstance(value, np.ndarray):
        return np.array(value)
    if isinstance(value, (list, tuple)):
        return type(value)(_copy(v) for v in value)
    return value


def read_then_scribble(obj, distribution="lognormal", rng=None):
    """Returns (paths_of_object_state_that_changed, accessors_whose_second_answer_differs, n_arrays_edited)."""
    before = snap(obj)
    first = {}
    handed_out = []
    with np.errstate(all="ignore"):
        for label, call in _accessors(obj, distribution):
            try:
                value = call()
            except Exception:
                continue
            first[label] = snap(_copy(value))
            handed_out.append((label, value))
        edited = 0
        for label, value in handed_out:
            for arr in _arrays(value):
                if arr.flags.writeable and arr.size:
                    if arr.dtype.kind == "b":
                        np.logical_not(arr, out=arr)
                    elif arr.dtype.kind in "fc":
                        arr *= 3.0
                        arr += 1.0
                        if rng is not None and arr.ndim == 1 and arr.size > 1:
                            arr[:] = arr[::-1].copy()
                    elif arr.dtype.kind in "iu":
                        arr += 1
                    edited += 1
        changed = diff(before, snap(obj))
        second_differs = []
        for label, call in _accessors(obj, distribution):
            if label not in first:
                continue
            try:
                value = call()
            except Exception as exc:
                second_differs.append(f"{label}: raised {exc!r} the second time")
                continue
            d = diff(first[label], snap(_copy(value)))
            if d:
                second_differs.append(f"{label}: {d[0]}")
    return changed, second_differs, edited
