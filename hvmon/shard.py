"""Run one shard of a property's workload in this process and dump the observations as JSON.

usage: python -m hvmon.shard <Cxx> --tier t --seed s --shard i --nshards n --cases N --seconds T --out f
       python -m hvmon.shard <Cxx> --tier t --seed s --only-index k --out f      (replay of one case)
"""

import contextlib
import argparse
import importlib
import json
import logging
import os
import subprocess
import sys
import time

import numpy as np

from .ctx import Ctx
from . import gen


def assert_repo():
    import hvsrpy
    path = os.path.realpath(hvsrpy.__file__)
    repo = os.path.realpath(os.environ.get("HVMON_REPO", "/repo"))
    if not path.startswith(repo + os.sep):
        raise SystemExit(f"hvsrpy imported from {path}, expected under {repo}")
    return path


def case_rng(seed, num, idx):
    return np.random.default_rng([int(seed), int(num), int(idx)])


def run(mod, ctx, indices, seconds, family=None):
    t0 = time.time()
    fams = mod.FAMILIES
    if hasattr(mod, "setup"):
        mod.setup(ctx)
    for idx in indices:
        if time.time() - t0 > seconds:
            ctx.count("stopped_by_time_budget")
            break
        # the families rotate WITHIN every shard (a shard holds the indices congruent to it, so `idx % len(fams)` would
        # pin a shard to a subset of the families, and with it that shard's hash seed / locale); a replay names the family
        if family is not None:
            name, fn = next((n, f) for n, f in fams if n == family)
        else:
            name, fn = fams[(idx // max(ctx.nshards, 1)) % len(fams)]
        rng = case_rng(ctx.seed, mod.NUM, idx)
        ctx.begin_case(name, idx)
        # the logging configuration is part of the environment: some cases run with hvsrpy's loggers enabled for DEBUG
        # (records go to a NullHandler), the rest at the default level; a separate generator keeps the case itself unchanged
        debug_logging = bool(np.random.default_rng([ctx.seed, mod.NUM, idx, 77]).random() < 0.15)
        hv_logger = logging.getLogger("hvsrpy")
        old_level = hv_logger.level
        if debug_logging:
            hv_logger.setLevel(logging.DEBUG)
            ctx.count("cases_with_hvsrpy_logging_at_DEBUG")
        # the FORM of the array arguments is part of the caller's environment too: for a quarter of the cases the arrays
        # the harness hands to hvsrpy's constructors arrive as strided views, read-only arrays, lists, big-endian arrays ...
        # with the same values (gen.ArgumentForms); again a separate generator, so the case itself is unchanged
        forms_rng = np.random.default_rng([ctx.seed, mod.NUM, idx, 78])
        forms = gen.ArgumentForms(forms_rng, ctx) if forms_rng.random() < 0.25 else contextlib.nullcontext()
        if not isinstance(forms, contextlib.nullcontext):
            ctx.count("cases_with_array_arguments_in_other_forms")
        try:
            with forms:
                fn(ctx, rng)
        except subprocess.TimeoutExpired as exc:
            # a generous wall-clock watchdog around a child process fired (loaded machine): that case is undecided,
            # never a violation; main.py reports the run as inconclusive when many cases end this way
            ctx.count("cases_abandoned_by_watchdog")
            ctx.count("watchdog:" + str(getattr(exc, "cmd", ["?"])[-1])[:60])
        except Exception as exc:  # any escape from a case is recorded, never swallowed
            ctx.exception(exc)
        finally:
            hv_logger.setLevel(old_level)
    if hasattr(mod, "teardown"):
        try:
            mod.teardown(ctx)
        except Exception as exc:
            ctx.begin_case("teardown", -1)
            ctx.exception(exc)
    return time.time() - t0


def main(argv=None):
    ap = argparse.ArgumentParser()
    ap.add_argument("prop")
    ap.add_argument("--tier", default="quick")
    ap.add_argument("--seed", type=int, default=0)
    ap.add_argument("--shard", type=int, default=0)
    ap.add_argument("--nshards", type=int, default=1)
    ap.add_argument("--cases", type=int, default=100)
    ap.add_argument("--seconds", type=float, default=60)
    ap.add_argument("--only-index", type=int, default=None)
    ap.add_argument("--family", default=None)
    ap.add_argument("--out", required=True)
    ap.add_argument("--verbose", action="store_true")
    a = ap.parse_args(argv)

    path = assert_repo()
    repo_root = os.path.dirname(os.path.dirname(path))
    mod = importlib.import_module(f"hvmon.monitors.{a.prop}")
    from . import linereach
    try:
        import hvsrpy  # noqa: make the package's functions live before local events are set
        import hvsrpy.sesame  # noqa
        import hvsrpy.cli  # noqa
        lr = linereach.start(a.prop, repo_root)
    except Exception:
        lr = False
    ctx = Ctx(a.prop, a.tier, a.seed, a.shard, a.nshards, verbose=a.verbose)
    if a.only_index is not None:
        indices = [a.only_index]
    else:
        indices = range(a.shard, a.cases, a.nshards)
    wall = run(mod, ctx, indices, a.seconds, family=a.family)
    res = ctx.result()
    res["wall_s"] = wall
    res["hvsrpy_path"] = path
    if lr:
        res["lines_reached"], res["lines_total"] = linereach.result(repo_root)
    with open(a.out, "w") as f:
        json.dump(res, f)
    return 0


if __name__ == "__main__":
    sys.exit(main())
