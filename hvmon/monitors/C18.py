"""C18 - recordings persist exactly; copies are independent; trim keeps the right samples.

Probes: SeismicRecording3C.save/load (+ _to_dict/_from_dict), both copy constructors, split, trim, and
an icontract class invariant on SeismicRecording3C ("the three stored components own three distinct
buffers of equal length") that fires after __init__ and after every public method in the workload.
Oracles: bit-exact snapshots, alias walker + poke, and a model of trim computed from arange(n)*dt.
"""

import os
import tempfile

import numpy as np

from .. import gen, snap
from ..ctx import biteq

PROPERTY = "C18"
NUM = 18
RULE = ("cases = recording (16-10000 samples incl. denormals, +-1e+-300, -0.0; dt from 8 values; orientation anywhere in "
        "[-720,1080]; nested metadata) x history of 0-8 operations over {trim, butterworth_filter, detrend, window, "
        "orient_sensor_to} followed by save/load, both copy constructors and split; trim cases = intervals on samples, "
        "between samples, exactly mid-way, start=0, end=last, start>=end, start<0, end beyond the record; non-trivial = a "
        "history with >= 1 operation or a trim that removes samples; distinct = (n, dt, history kinds, trim class) signatures")
ASSUMPTIONS = [
    "recordings hold finite measurements (no NaN/inf samples)",
    "a trim time exactly mid-way between two samples may keep either neighbour",
    "orientation is compared modulo 360 degrees, metadata by content after tuple/list normalisation",
]
NOT_REACHED = ["records longer than 10000 samples in this check"]
BUDGET = {"quick": dict(cases=4000, seconds=60, shards=4),
          "thorough": dict(cases=300000, seconds=600, shards=16)}
REQUIRED = ["mon:save-load-bit-exact", "mon:copies-share-no-storage", "mon:trim-keeps-nearest-samples",
            "mon:trim-refuses-outside-record", "mon:components-own-distinct-buffers", "mon:split-windows-independent"]

CTX = [None]


class InvariantBroken(Exception):
    pass


def inv_recording(self):
    ctx = CTX[0]
    if ctx is None or not all(hasattr(self, a) for a in ("ns", "ew", "vt")):
        return True
    a, b, c = self.ns.amplitude, self.ew.amplitude, self.vt.amplitude
    ok = not (np.shares_memory(a, b) or np.shares_memory(a, c) or np.shares_memory(b, c)) and len(a) == len(b) == len(c)
    ctx.check(ok, "components-own-distinct-buffers", "components of a recording share a buffer or differ in length",
              lengths=[len(a), len(b), len(c)])
    return True


def setup(ctx):
    import hvsrpy
    import icontract
    CTX[0] = ctx
    cls = hvsrpy.SeismicRecording3C
    if not getattr(cls, "_hvmon_invariant", False):
        icontract.invariant(inv_recording, error=InvariantBroken)(cls)
        cls._hvmon_invariant = True


def special_samples(rng, n):
    x = rng.standard_normal(n) * gen.scale(rng)
    k = max(1, n // 10)
    idx = rng.choice(n, size=k, replace=False)
    pool = np.array([5e-324, -5e-324, 2.2e-308, 1e-300, -1e300, 1e300, -0.0, 0.0, 1 / 3, np.pi, 1.7976931348623157e308])
    x[idx] = rng.choice(pool, size=k)
    if rng.random() < 0.3:
        # markers some digitisers / conversions leave in a record: overflow (+-inf) and gaps (NaN); a recording that
        # holds them is persisted like any other
        j = rng.choice(n, size=min(n, 3), replace=False)
        x[j] = rng.choice(np.array([np.inf, -np.inf, np.nan]), size=j.size)
    return x


def count_samples(rng, n):
    """Whole-number samples as raw recordings hold them (digitiser counts), in any unit: small counts, counts beyond
    2^53 and 2^63 (every such double is a whole number), with negative zeros (polarity-reversed zero counts)."""
    x = np.rint(rng.standard_normal(n) * float(rng.choice([3.0, 2e4, 1e9])))
    x = x * float(rng.choice([1.0, 1.0, 1e16, 2.0 ** 70, 1e300]))
    if rng.random() < 0.5:
        x = -x                      # zeros become -0.0
    return x


def gen_recording(rng, wild=True, n=None):
    n = int(n if n is not None else rng.choice([16, 64, 300, 1000, 4000, 10000]))
    dt = float(rng.choice([0.001, 0.004, 0.005, 0.01, 0.02, 1 / 75, 1 / 150, 0.0078125]))
    mk = (lambda: special_samples(rng, n)) if wild else (lambda: gen.signal(rng, n) * float(10 ** rng.uniform(-3, 3)))
    if wild and rng.random() < 0.4:
        mk = lambda: count_samples(rng, n)
    deg = float(rng.choice([0., 90., 359.999, 360., -30., 400., float(rng.uniform(-720, 1080))]))
    meta = {"site": str(rng.choice(["STN", "S\u00e9isme-\u00d1and\u00fa", "\u5730\u9707 site 7"])), "nested": {"list": [1, 2.5, None], "tuple": (1, 2)}, "value": float(rng.random())} if rng.random() < 0.6 else None
    return gen.make_recording(mk(), mk(), mk(), dt, degrees_from_north=deg, meta=meta), n, dt


OPS = ["trim", "butterworth", "detrend", "window", "orient"]


def apply_history(rng, rec, k):
    hist = []
    for _ in range(k):
        op = str(rng.choice(OPS))
        n = rec.ns.n_samples
        dt = rec.ns.dt_in_seconds
        if op == "trim" and n > 40:
            t = rec.ns.time()
            i0 = int(rng.integers(0, n // 4))
            i1 = int(rng.integers(3 * n // 4, n))
            rec.trim(float(t[i0]), float(t[i1]))
            hist.append(["trim", float(t[i0]), float(t[i1])])
        elif op == "butterworth" and n > 100:
            fn = 0.5 / dt
            fcs = [(fn * 0.02, None), (None, fn * 0.5), (fn * 0.05, fn * 0.6), (None, None)][int(rng.integers(0, 4))]
            import warnings
            with warnings.catch_warnings():
                warnings.simplefilter("ignore")
                rec.butterworth_filter(fcs)
            hist.append(["butterworth", list(fcs)])
        elif op == "detrend":
            ty = str(rng.choice(["linear", "constant"]))
            rec.detrend(type=ty)
            hist.append(["detrend", ty])
        elif op == "window":
            w = float(rng.choice([0.0, 0.1, 0.5, 1.0]))
            rec.window("tukey", w)
            hist.append(["window", w])
        elif op == "orient":
            a = float(rng.choice([0., 90., 360., 400., -30., -390., 720., float(rng.uniform(-720, 1080))]))
            rec.orient_sensor_to(a)
            hist.append(["orient", a])
    return hist


def flip(a, i):
    """Overwrite a[i] with a value that is certainly different (adding to 1e300 changes nothing)."""
    a[i] = 7.0 if a[i] != 7.0 else 8.0


def arrays_of(rec):
    return [rec.ns.amplitude, rec.ew.amplitude, rec.vt.amplitude]


def check_independent(ctx, src, cp, label, info):
    shared = [(i, j) for i, a in enumerate(arrays_of(src)) for j, b in enumerate(arrays_of(cp)) if a.size and b.size and np.shares_memory(a, b)]
    proven = False
    if not shared:
        # poke the copy, observe the source (and the other way round)
        before = snap.snap(arrays_of(src))
        for b in arrays_of(cp):
            if b.size:
                flip(b, 0)
                flip(b, -1)
        proven = snap.snap(arrays_of(src)) != before
        before_c = snap.snap(arrays_of(cp))
        for a in arrays_of(src):
            if a.size:
                flip(a, 0)
        proven = proven or snap.snap(arrays_of(cp)) != before_c
    ctx.check(not shared and not proven, "copies-share-no-storage", f"{label}: sample storage shared with the source",
              shared_components=shared, observed_by_poke=proven, **info)


def fam_persist(ctx, rng):
    import hvsrpy
    wild = rng.random() < 0.5
    rec, n, dt = gen_recording(rng, wild=wild)
    # the file may already exist: an earlier state of the same recording (before the history: as long or longer) was saved
    # under the same name, or a longer, unrelated recording was - saving writes the file anew
    d = tempfile.mkdtemp(prefix="c18-", dir=os.environ.get("HVMON_SCRATCH"))
    path = os.path.join(d, "rec.json")
    earlier = str(rng.choice(["none", "none", "same-recording-before-the-history", "longer-unrelated-recording"]))
    if earlier == "same-recording-before-the-history":
        rec.save(path)
    elif earlier == "longer-unrelated-recording":
        gen_recording(rng, wild=False, n=2 * n + 7)[0].save(path)
    hist = apply_history(rng, rec, 0 if wild else int(rng.integers(0, 9)))
    info = dict(n=n, dt=dt, wild_samples=bool(wild), history=[h[0] for h in hist], file_existed=earlier)
    ctx.describe(**info, degrees_from_north=rec.degrees_from_north, history_full=hist)
    if hist and not all(np.all(np.isfinite(a)) for a in arrays_of(rec)):
        ctx.count("history_overflowed_not_judged")
        if os.path.exists(path):
            os.remove(path)
        os.rmdir(d)
        return
    try:
        before = snap.snap(rec)
        import pathlib
        path_arg = pathlib.Path(path) if rng.random() < 0.3 else path
        rec.save(path_arg)
        ctx.check(snap.snap(rec) == before, "save-leaves-recording-unchanged", "save() changed the recording", **info)
        back = hvsrpy.SeismicRecording3C.load(path_arg)
        ctx.count("save_load_round_trips")
    finally:
        if os.path.exists(path):
            os.remove(path)
        os.rmdir(d)
    okb = all(biteq(a, b) for a, b in zip(arrays_of(rec), arrays_of(back)))
    okdt = back.ns.dt_in_seconds == rec.ns.dt_in_seconds == back.ew.dt_in_seconds == back.vt.dt_in_seconds
    okdeg = abs(((back.degrees_from_north - rec.degrees_from_north) + 180) % 360 - 180) < 1e-9
    okmeta = snap.norm(back.meta) == snap.norm(rec.meta)
    ctx.check(okb and okdt and okdeg and okmeta, "save-load-bit-exact", "load(save(r)) differs from r",
              samples_bit_equal=okb, dt_equal=okdt, orientation_equal_mod_360=okdeg, meta_equal=okmeta,
              degrees=[rec.degrees_from_north, back.degrees_from_north], **info)
    # copies
    cp = hvsrpy.SeismicRecording3C.from_seismic_recording_3c(rec)
    okc = all(biteq(a, b) for a, b in zip(arrays_of(rec), arrays_of(cp))) and cp.ns.dt_in_seconds == rec.ns.dt_in_seconds \
        and abs(((cp.degrees_from_north - rec.degrees_from_north) + 180) % 360 - 180) < 1e-9
    ctx.check(okc, "copy-equals-source", "from_seismic_recording_3c does not reproduce the source", **info)
    check_independent(ctx, rec, cp, "from_seismic_recording_3c", info)
    ts = hvsrpy.TimeSeries.from_timeseries(rec.ns)
    sh = np.shares_memory(ts.amplitude, rec.ns.amplitude)
    b0 = rec.ns.amplitude.copy()
    flip(ts.amplitude, 0)
    ctx.check(not sh and biteq(rec.ns.amplitude, b0), "copies-share-no-storage", "TimeSeries.from_timeseries shares storage", **info)
    # constructor arguments
    a, b, c = (hvsrpy.TimeSeries(x.copy(), dt) for x in arrays_of(rec))
    r2 = hvsrpy.SeismicRecording3C(a, b, c)
    sh = any(np.shares_memory(x.amplitude, y) for x in (a, b, c) for y in arrays_of(r2))
    flip(a.amplitude, 0)
    ctx.check(not sh and r2.ns.amplitude[0] != a.amplitude[0], "copies-share-no-storage",
              "a recording shares storage with the TimeSeries it was constructed from", **info)
    # the same TimeSeries used for all three components
    r3 = hvsrpy.SeismicRecording3C(b, b, b)
    flip(r3.ns.amplitude, 0)
    ctx.check(r3.ew.amplitude[0] == b.amplitude[0] and r3.vt.amplitude[0] == b.amplitude[0], "copies-share-no-storage",
              "components built from one TimeSeries are coupled", **info)
    # split windows
    m = rec.ns.n_samples
    if m >= 20:
        L = (m // int(rng.integers(2, 6))) * dt
        whole = str(rng.choice(["no", "no", "exactly-the-record", "one-sample-short", "more-than-half"]))
        if whole == "exactly-the-record":
            L = (m - 1) * dt                     # one window that spans the whole record: still a copy
        elif whole == "one-sample-short":
            L = (m - 2) * dt
        elif whole == "more-than-half":
            L = (m // 2 + int(rng.integers(1, max(2, m // 3)))) * dt
        info = dict(info, split_window=whole)
        if L >= 2 * dt:
            src_before = snap.snap(arrays_of(rec))
            wins = rec.split(L)
            ok = True
            for w in wins:
                if any(np.shares_memory(x, y) for x in arrays_of(w) for y in arrays_of(rec)):
                    ok = False
            for i in range(len(wins)):
                for j in range(i + 1, len(wins)):
                    if any(np.shares_memory(x, y) for x in arrays_of(wins[i]) for y in arrays_of(wins[j])):
                        ok = False
            if wins:
                for x in arrays_of(wins[0]):
                    flip(x, -1)             # the boundary sample shared with the next window
                ok = ok and snap.snap(arrays_of(rec)) == src_before
                if len(wins) > 1:
                    ok = ok and wins[1].ns.amplitude[0] != wins[0].ns.amplitude[-1]
            ctx.check(ok, "split-windows-independent", "split windows share storage with the record or with each other",
                      n_windows=len(wins), **info)
    if hist:
        ctx.nontrivial([n, dt, [h[0] for h in hist]])
    ctx.state([wild, tuple(h[0] for h in hist)])


def fam_trim(ctx, rng):
    import hvsrpy
    n = int(rng.choice([5, 16, 100, 1000, 5000])) if rng.random() < 0.5 else int(rng.integers(5, 400))
    dt = float(rng.choice([0.001, 0.004, 0.005, 0.01, 0.02, 0.05, 0.1, 1 / 75, 1 / 150]))
    x = [np.arange(n) * 1.0 + c * 1000.0 + rng.random(n) for c in range(3)]
    t = np.arange(n) * dt
    cls = str(rng.choice(["on-samples", "between", "midway", "start-zero", "end-last", "end-last", "start>=end", "start<0", "end-beyond",
                          "end-just-beyond", "end-just-beyond", "random"]))
    if cls == "end-just-beyond":
        # the end of the record as a function of (n, dt): any length, so that rounding in whatever expression the code
        # uses for "time of the last sample" is exercised for many (n, dt) pairs
        n = int(rng.integers(3, 1500))
        x = [np.arange(n) * 1.0 + c * 1000.0 + rng.random(n) for c in range(3)]
        t = np.arange(n) * dt
    i0, i1 = sorted(int(v) for v in rng.choice(n, size=2, replace=False))
    s, e = float(t[i0]), float(t[i1])
    if cls == "between":
        s, e = float(t[i0] + rng.uniform(-0.4, 0.4) * dt), float(t[i1] + rng.uniform(-0.4, 0.4) * dt)
        s = max(s, 0.0)
        e = min(e, float(t[-1]))
    elif cls == "midway":
        s = float(0.5 * (t[i0] + t[min(i0 + 1, n - 1)]))
        e = float(0.5 * (t[i1] + t[max(i1 - 1, 0)])) if i1 - i0 > 2 else e
    elif cls == "start-zero":
        s = 0.0
    elif cls == "end-last":
        e = float(t[-1])
    elif cls == "start>=end":
        s, e = (e, s) if rng.random() < 0.5 else (s, s)
    elif cls == "start<0":
        s = -float(rng.uniform(1e-6, 5)) * dt
    elif cls == "end-beyond":
        e = float(t[-1] + rng.uniform(1e-3, 5) * dt)
    elif cls == "end-just-beyond":
        s = 0.0 if rng.random() < 0.5 else s
        e = float(t[-1] + rng.choice([0.25, 0.5, 0.75, 1.0, float(rng.uniform(0.01, 1.0))]) * dt)
    elif cls == "random":
        s, e = sorted(float(v) for v in rng.uniform(0, t[-1], 2))
    on_rec = bool(rng.random() < 0.5)
    info = dict(n=n, dt=dt, start=s, end=e, trim_class=cls, on_recording=on_rec)
    ctx.describe(**info)
    obj = gen.make_recording(x[0], x[1], x[2], dt) if on_rec else hvsrpy.TimeSeries(x[0], dt)
    # a script that plots first: the time vector it was handed is its own (shifted to absolute time, scaled to
    # milliseconds, reversed for a waterfall) - the later trim still goes by the record's relative time
    used_time = str(rng.choice(["no", "no", "own", "sibling-of-equal-length"]))
    if used_time != "no":
        holder = obj if used_time == "own" else (gen.make_recording(x[2], x[1], x[0], dt) if rng.random() < 0.5 else hvsrpy.TimeSeries(x[1], dt))
        series = [holder.ns, holder.ew, holder.vt] if hasattr(holder, "ns") else [holder]
        for ts in series[:int(rng.integers(1, len(series) + 1))]:
            tv = ts.time()
            if isinstance(tv, np.ndarray) and tv.flags.writeable and tv.size:
                edit = int(rng.integers(0, 3))
                if edit == 0:
                    tv += float(rng.choice([1.0e3, 1.7e9, -5.0]))
                elif edit == 1:
                    tv *= 1000.0
                else:
                    tv[:] = tv[::-1].copy()
                ctx.count("time_vectors_handed_out_and_edited")
    info["time_vector_used_before"] = used_time
    refuse = (s < 0) or (s >= e) or (e > t[-1] * (1 + 1e-12) + 1e-15)
    unclear = (not refuse) and (e > t[-1])          # within rounding of the record's end
    s_arg, e_arg = s, e
    if rng.random() < 0.3:
        # the limits as other numeric types holding the same values (np.float64 from a table, Python / NumPy ints for whole seconds)
        s_arg, ts_ = gen.scalar_form(rng, s, allow=["float", "float64", "zero-dim-array", "int", "int64", "int32", "float32"])
        e_arg, te_ = gen.scalar_form(rng, e, allow=["float", "float64", "zero-dim-array", "int", "int64", "int32", "float32"])
        info["limits_given_as"] = [ts_, te_]
    try:
        obj.trim(s_arg, e_arg)
        err = None
    except Exception as ex:
        err = ex
    ctx.count("trim_calls")
    if refuse:
        ctx.check(err is not None, "trim-refuses-outside-record", "trim accepted a range outside the record / an empty range", **info)
        ctx.nontrivial(["refuse", n, dt, cls])
        return
    if err is not None:
        ctx.check(unclear, "trim-accepts-inside-record", f"trim refused a range inside the record: {err!r}", **info)
        return

    def cands(tt):
        d = np.abs(t - tt)
        m = d.min()
        return set(np.flatnonzero(d <= m + 1e-9 * dt).tolist())
    c0, c1 = cands(s), cands(e)
    comps = arrays_of(obj) if on_rec else [obj.amplitude]
    ok = False
    for a in c0:
        for b in c1:
            if all(biteq(np.ascontiguousarray(cc), xx[a:b + 1]) for cc, xx in zip(comps, x)):
                ok = True
    ctx.check(ok, "trim-keeps-nearest-samples", "trim did not keep the samples nearest(start)..nearest(end)",
              kept=[int(comps[0].size), float(comps[0][0]) if comps[0].size else None], start_candidates=sorted(c0),
              end_candidates=sorted(c1), **info)
    if max(c1) - min(c0) + 1 < n:
        ctx.nontrivial(["trim", n, dt, cls, on_rec])
    ctx.state([cls, on_rec])


FAMILIES = [("persist-and-copy", fam_persist), ("trim", fam_trim)]
