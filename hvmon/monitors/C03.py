"""C03 - one curve per window, in input order, independent of the other windows.

Probe: hvsrpy.process at its boundary; every recording carries unique content so a returned row
identifies the recording it was computed from.  Oracle (offline over the recorded calls): expected
kept set per policy, row j == process([kept_j]) (same pinned FFT length) to 1e-12, frequency == fcs,
finite non-negative amplitudes, error iff max(fcs) exceeds the smallest Nyquist of the processed
recordings.
"""

import itertools

import numpy as np

from .. import gen, readers
from ..ctx import close, maxrel
from . import C01

PROPERTY = "C03"
NUM = 3
RULE = ("cases = list of 1-12 recordings (one case in 25: 24-530, a few forced long keeping-policy lists per run; lengths differing per recording, 1-4 distinct time steps in sorted / reverse / "
        "interleaved / majority-first / majority-last / tied arrangements, optional duplicates) x policy (3) x processor "
        "(frequency-domain, single azimuth, RotDpp, azimuthal) x pinned FFT length x centre frequencies possibly "
        "straddling the smallest Nyquist; plus all permutations (<= 4 recordings) or random permutations / sub-lists; "
        "non-trivial = >= 2 recordings and (>= 2 distinct time steps or a non-identity permutation or a proper sub-list); "
        "distinct = (dts arrangement, lengths, policy, method, operator, permutation) signatures")
ASSUMPTIONS = [
    "FFT length pinned through fft_settings={'n': N} with N >= nextpow2(longest recording), so joint and single runs use the same grid",
    "for keeping_majority_time_step any most-frequent time step is admissible when counts tie",
    "cases whose largest centre frequency is within 1e-9 (relative) of the deciding Nyquist frequency are not judged for the error clause",
]
NOT_REACHED = ["lists longer than 530", "diffuse_field / psd (one pooled curve; see C17)"]
BUDGET = {"quick": dict(cases=500, seconds=70, shards=4),
          "thorough": dict(cases=40000, seconds=600, shards=16)}
REQUIRED = ["mon:rows-unchanged-by-reading", "mon:row-equals-single-run", "mon:row-count-and-order", "mon:frequency-equals-fcs",
            "mon:finite-nonnegative", "mon:nyquist-refusal", "mon:permutation-consistent"]

POLICIES = ["frequency_domain_resampling", "keeping_smallest_time_step", "keeping_majority_time_step"]
ARR = ["single-dt", "sorted", "reverse", "interleaved", "majority-first", "majority-last", "tie", "random", "near-equal"]


def gen_dts(rng, k, arrangement):
    pool = [0.005, 0.01, 0.02, 0.004, 1 / 75, 0.0125]
    if arrangement == "single-dt" or k == 1:
        return [float(rng.choice(pool))] * k
    if arrangement == "near-equal":
        # two time steps that differ only by rounding (0.01 s stored in single precision reads back as 0.00999999978 s):
        # they are different time steps, and every recording keeps its own
        a = float(rng.choice([0.01, 0.005, 0.02]))
        b = float(np.float32(a)) if rng.random() < 0.7 else a * (1 + 1e-7)
        dts = [a if rng.random() < 0.5 else b for _ in range(k)]
        dts[0], dts[-1] = (a, b) if rng.random() < 0.5 else (b, a)
        return dts
    nd = int(rng.integers(2, min(4, k) + 1))
    ds = [float(x) for x in rng.choice(pool, nd, replace=False)]
    if arrangement == "tie" and k >= 2:
        dts = [ds[i % 2] for i in range(k - (k % 2))] + ([ds[-1]] if k % 2 and nd > 2 else [ds[0]] * (k % 2))
        return dts[:k]
    if arrangement in ("majority-first", "majority-last"):
        m = k // 2 + 1
        rest = [ds[1 + i % (nd - 1)] for i in range(k - m)]
        return [ds[0]] * m + rest if arrangement == "majority-first" else rest + [ds[0]] * m
    dts = [ds[int(rng.integers(0, nd))] for _ in range(k)]
    dts[0], dts[-1] = ds[0], ds[1]
    if arrangement == "sorted":
        return sorted(dts)
    if arrangement == "reverse":
        return sorted(dts, reverse=True)
    if arrangement == "interleaved":
        return [ds[i % nd] for i in range(k)]
    return dts


def expected_kept(dts, policy):
    """list of admissible kept index lists."""
    idx = list(range(len(dts)))
    if policy == "frequency_domain_resampling":
        return [idx]
    if policy == "keeping_smallest_time_step":
        m = min(dts)
        return [[i for i in idx if dts[i] == m]]
    counts = {}
    for d in dts:
        counts[d] = counts.get(d, 0) + 1
    best = max(counts.values())
    return [[i for i in idx if dts[i] == d] for d, c in counts.items() if c == best]


def process_list(ctx, items, cfg):
    """items: list of (ns, ew, vt, dt) or ('same', j) to reuse object j."""
    import hvsrpy
    recs = []
    for it in items:
        if isinstance(it[0], str):
            recs.append(recs[it[1]])
        else:
            recs.append(gen.make_recording(np.array(it[0]), np.array(it[1]), np.array(it[2]), it[3]))
    st = C01.make_settings(cfg)
    ctx.count("process_calls")
    try:
        with np.errstate(all="ignore"):
            res = hvsrpy.process(recs, st)
    except Exception as e:
        return None, e, st
    if cfg["kind"] == "azimuthal":
        curves = [np.array(h.amplitude) for h in res.hvsrs]
    else:
        curves = [np.atleast_2d(np.array(res.amplitude))]
    # -- the rows stay what process() returned while the result is read (statistics, peak vectors) and what was
    #    handed out is edited by the caller
    if curves[0].shape[0] <= 60:
        dist = str(np.random.default_rng(curves[0].shape).choice(["lognormal", "normal"]))
        changed, second, edited = readers.read_then_scribble(res, dist, rng=True)
        ctx.count("arrays_handed_out_by_results_and_edited", edited)
        now = [np.asarray(h.amplitude) for h in res.hvsrs] if cfg["kind"] == "azimuthal" else [np.atleast_2d(np.asarray(res.amplitude))]
        same = all(a.shape == b.shape and bool(np.all(a == b)) for a, b in zip(curves, now))
        ctx.check(same and not changed and not second, "rows-unchanged-by-reading",
                  "after reading statistics / peak vectors of the result and editing the returned arrays, the result no "
                  "longer holds the curves process() computed (or answers differently)", mechanism="returned-array-shares-memory-with-result",
                  rows=int(curves[0].shape[0]), distribution=dist, state_changed=changed[:4], second_answer_differs=second[:4],
                  method=cfg.get("method"), kind=cfg["kind"])
    return curves, res, st


def fam_list(ctx, rng):
    k = int(rng.choice([1, 2, 2, 3, 3, 4, 5, 6, 8, 12]))
    k, many = gen.maybe_large(rng, ctx, k, [24, 48, 130, 270, 300, 530], p_quick=0.04, p_thorough=0.03)     # hours of windows in one call
    arrangement = ARR[int(rng.integers(0, len(ARR)))]
    forced = ctx.every(41, 11)          # a fixed handful of cases per run: a long list, mixed time steps in blocks, a keeping policy
    if forced:
        k, many = int(rng.choice([270, 300, 530])), True
        arrangement = str(rng.choice(["majority-first", "majority-last", "sorted", "reverse"]))
    dts = gen_dts(rng, k, arrangement)
    lengths = [int(rng.choice([200, 500] if many else [200, 500, 1000, 2048, 3001, 6000])) for _ in range(k)]
    items = []
    for i in range(k):
        a = gen.recording_arrays(rng, lengths[i], None, amp=float(10 ** rng.uniform(-2, 2)))
        items.append((a[0], a[1], a[2], dts[i]))
    dup = None
    if k >= 2 and rng.random() < 0.2:           # a duplicate: equal content, distinct object
        j = int(rng.integers(0, k - 1))
        items[-1] = (items[j][0].copy(), items[j][1].copy(), items[j][2].copy(), items[j][3])
        dts[-1], lengths[-1] = dts[j], lengths[j]
        dup = j
    policy = POLICIES[int(rng.integers(0, 3))]
    if forced:
        policy = POLICIES[1 + int(rng.integers(0, 2))]
    kind = str(rng.choice(["freq", "freq", "single", "rotdpp", "azimuthal"]))
    N = int(rng.choice([2 ** 15, 2 ** 16]))
    dt_min_nyq = max(dts)
    cfg = C01.gen_cfg(rng, dt_min_nyq, max(lengths), kind)
    cfg["user_n"] = N
    cfg["policy"] = policy
    # centre frequencies relative to the smallest Nyquist of the recordings that will be processed
    kept_opts = expected_kept(dts, policy)
    nyq_opts = [0.5 / max(dts[i] for i in ko) for ko in kept_opts]
    straddle = rng.random() < 0.25
    fmax = cfg["fcs"].max()
    target_nyq = min(nyq_opts)
    if straddle:
        factor = float(rng.choice([1 + 1e-6, 1.01, 1.3, 1 - 1e-6, 0.99]))
        cfg["fcs"] = cfg["fcs"] * (target_nyq * factor / fmax)
    else:
        cfg["fcs"] = cfg["fcs"] * min(1.0, 0.95 * target_nyq / fmax)
    fmax = float(cfg["fcs"].max())
    ctx.describe(k=k, arrangement=arrangement, dts=dts, lengths=lengths, duplicate_of=dup,
                 **{a: b for a, b in cfg.items()})
    info = dict(dts=dts, lengths=lengths, policy=policy, method=cfg["method"], op=cfg["op"], b=cfg["b"], N=N)

    curves, res, st = process_list(ctx, items, cfg)
    # -- error clause ----------------------------------------------------------------------
    above = [fmax > nq * (1 + 1e-9) for nq in nyq_opts]
    below = [fmax < nq * (1 - 1e-9) for nq in nyq_opts]
    if curves is None:
        if all(below):
            # an error although every centre frequency is below Nyquist: acceptable only for degenerate smoothing
            refs_ok = isinstance(res, ValueError) and cfg["op"] == "savitzky_and_golay"
            if not refs_ok:
                # re-examine through single runs: if a single run of some kept recording raises as well, it is a
                # curve-level refusal (NaN/negative curve), not an ordering problem
                single_raises = False
                for i in kept_opts[0]:
                    c1, r1, _ = process_list(ctx, [items[i]], cfg)
                    if c1 is None:
                        single_raises = True
                        break
                refs_ok = single_raises
            ctx.check(refs_ok, "no-unexpected-error", f"process raised {res!r} for centre frequencies below Nyquist", **info)
        else:
            ctx.check(True, "nyquist-refusal")
        return
    if all(above):
        ctx.check(False, "nyquist-refusal", f"centre frequencies up to {fmax} Hz accepted although the smallest Nyquist of "
                  f"the processed recordings is {min(nyq_opts)} Hz", **info)
        return
    elif all(below):
        ctx.check(True, "nyquist-refusal")
    # -- rows -------------------------------------------------------------------------------
    fr = np.asarray(res.frequency)
    ctx.check(fr.shape == cfg["fcs"].shape and bool(np.all(fr == cfg["fcs"])), "frequency-equals-fcs",
              "result.frequency is not the requested centre-frequency vector", **info)
    nrows = curves[0].shape[0]
    cands = [ko for ko in kept_opts if len(ko) == nrows]
    ctx.check(bool(cands) and all(c.shape[0] == nrows for c in curves), "row-count-and-order",
              f"{nrows} curves returned, expected {[len(ko) for ko in kept_opts]} (policy {policy})", **info)
    if not cands:
        return
    ok_all = bool(np.all([np.all(np.isfinite(c)) and np.all(c >= 0) for c in curves]))
    ctx.check(ok_all, "finite-nonnegative", "a returned curve holds a non-finite or negative amplitude", **info)
    singles = {}

    def single(i):
        if i not in singles:
            c1, r1, _ = process_list(ctx, [items[i]], cfg)
            singles[i] = c1
        return singles[i]

    matched = None
    for ko in cands:
        good = True
        # (long lists: the first and last rows and a random sample of the others are compared with their single runs)
        rows = range(len(ko)) if len(ko) <= 40 else sorted({0, 1, len(ko) - 2, len(ko) - 1, 255, 256, 257} & set(range(len(ko))) |
                                                        set(int(v) for v in rng.choice(len(ko), size=10, replace=False)))
        for j in rows:
            i = ko[j]
            s1 = single(i)
            if s1 is None:
                good = False
                break
            for a in range(len(curves)):
                if not close(curves[a][j], s1[a][0], rtol=1e-12, atol=1e-13 * float(np.max(np.abs(s1[a][0])) + 1e-300)):
                    good = False
        if good:
            matched = ko
            break
    if matched is None:
        ko = cands[0]
        worst = []
        for j, i in list(enumerate(ko))[:40]:
            s1 = single(i)
            if s1 is not None:
                worst.append(max(maxrel(curves[a][j], s1[a][0]) for a in range(len(curves))))
        # which recording does each row actually match? (unique content makes this unambiguous)
        owner = []
        for j in range(min(nrows, 0 if many else 40)):
            o = [i for i in range(k) if single(i) is not None and close(curves[0][j], single(i)[0][0], rtol=1e-12)]
            owner.append(o)
        ctx.check(False, "row-equals-single-run", "a row differs from the curve of its recording processed alone",
                  expected_rows=ko, rows_match_recordings=owner, maxrel_per_row=worst, **info)
    else:
        ctx.check(True, "row-equals-single-run")
    nontriv = k >= 2 and len(set(dts)) >= 2
    # -- permutations / sub-lists on the real code ---------------------------------------------
    if k >= 2 and matched is not None and not many:
        if k <= 4 and rng.random() < 0.5:
            perms = [p for p in itertools.permutations(range(k)) if list(p) != list(range(k))][:6]
        else:
            perms = [tuple(rng.permutation(k))]
            sub = sorted(rng.choice(k, size=int(rng.integers(1, k)), replace=False).tolist())
            perms.append(tuple(sub))
        for p in perms:
            pit = [items[i] for i in p]
            pd = [dts[i] for i in p]
            c2, r2, _ = process_list(ctx, pit, cfg)
            kopts = expected_kept(pd, policy)
            if c2 is None:
                nq = [0.5 / max(pd[i] for i in ko) for ko in kopts]
                legit = not all(fmax < x * (1 - 1e-9) for x in nq)
                if not legit:
                    # a curve-level refusal (NaN / negative curve, e.g. Savitzky-Golay at the spectrum's end) is
                    # consistent iff the single run of some recording of an admissible kept set is refused as well
                    legit = any(single(p[i]) is None for ko in kopts for i in ko)
                ctx.check(legit, "permutation-consistent", f"permuted / sub-list call raised {r2!r}", order=list(p), **info)
                continue
            okp = False
            for ko in kopts:
                if len(ko) != c2[0].shape[0]:
                    continue
                if all(single(p[i]) is not None and all(close(c2[a][j], single(p[i])[a][0], rtol=1e-12,
                       atol=1e-13 * float(np.max(np.abs(single(p[i])[a][0])) + 1e-300)) for a in range(len(c2)))
                       for j, i in enumerate(ko)):
                    okp = True
                    break
            ctx.check(okp, "permutation-consistent", "rows of a permuted / sub-list call are not the single-run curves of "
                      "the kept recordings in their order", order=list(p), **info)
            nontriv = True
    if nontriv:
        ctx.nontrivial([dts, lengths, policy, cfg["method"], cfg["op"], arrangement])
    ctx.state([arrangement, policy, cfg["kind"], len(set(dts))])


def fam_same_object_twice(ctx, rng):
    """The same recording object appears twice in the list (rows must be equal and equal to its single run)."""
    k = int(rng.integers(2, 5))
    dt = float(rng.choice([0.005, 0.01]))
    items = []
    for i in range(k - 1):
        a = gen.recording_arrays(rng, int(rng.choice([500, 1000, 3000])), None, amp=1.0)
        items.append((a[0], a[1], a[2], dt))
    j = int(rng.integers(0, k - 1))
    items.append(("same", j))
    kind = str(rng.choice(["freq", "single", "rotdpp", "azimuthal"]))
    cfg = C01.gen_cfg(rng, dt, 3000, kind)
    cfg["user_n"] = 2 ** 15
    cfg["alpha"] = float(rng.choice([0.05, 0.1, 0.5, 1.0]))
    ctx.describe(k=k, same_as=j, **cfg)
    curves, res, st = process_list(ctx, items, cfg)
    if curves is None:
        ctx.count("same_object_case_raised")
        return
    c1, r1, _ = process_list(ctx, [items[j]], cfg)
    if c1 is None:
        return
    ok = all(close(c[j], c1[a][0], rtol=1e-12) and close(c[k - 1], c1[a][0], rtol=1e-12) for a, c in enumerate(curves))
    ctx.check(ok, "row-equals-single-run", "a recording object that appears twice in the list gives rows that differ from "
              "its single-run curve", method=cfg["method"], alpha=cfg["alpha"],
              maxrel_first=maxrel(curves[0][j], c1[0][0]), maxrel_second=maxrel(curves[0][k - 1], c1[0][0]))
    ctx.nontrivial(["same-object", k, j, cfg["method"], cfg["alpha"]])


FAMILIES = [("recording-list", fam_list), ("recording-list-2", fam_list), ("same-object-twice", fam_same_object_twice)]
