"""C06 - frequency-domain window rejection follows Cox et al. (2020) and terminates.

Probes: frequency_domain_window_rejection (call/return, masks before/after) and a logging.Handler on
'hvsrpy.window_rejection' at DEBUG: at every 'c_iteration:' record the handler snapshots the masks of
the object(s) under rejection -> a per-iteration event log.
Oracles: models/fdwra.py (final masks + iteration count, when decidable), an offline trace checker
(accepted set non-increasing, #records == returned count <= max_iterations, int returned),
metamorphic relations (window permutation, amplitude rescaling), and the stored range / cached
peaks after the entry search.
"""

import logging

import numpy as np

from .. import gen, histories
from ..models import fdwra as MF
from ..models.peaks import Oracle

PROPERTY = "C06"
NUM = 6
RULE = ("cases = (traditional set of 5-80 curves or azimuthal set of 1-6 azimuths with unequal window counts; peak "
        "frequencies in lognormal clusters with 0-30% outliers, duplicated peaks; n in (0.3,4); max_iterations in "
        "{1,2,3,5,50}; 4 distribution pairs; random search range; optionally a second call); non-trivial = at least one "
        "window rejected or the run needed >= 2 iterations or stopped at max_iterations; distinct = (kind, n curves, "
        "n, max_iterations, distributions, returned count, number rejected) signatures")
ASSUMPTIONS = [
    "the model takes the cached per-window peaks from the object right after the entry peak search (C08 judges them; the stored range and the cached peaks are also re-checked here)",
    "runs in which a model decision margin is below 1e-9, the mean-curve peak is tied, or a statistic is undefined (fewer than two accepted peaks, mean curve without a peak) are judged on the structural clauses only",
    "windows without a peak are not examined by the algorithm (they have no frequency to compare)",
]
NOT_REACHED = ["find_peaks_kwargs other than None", "more than 80 windows per azimuth"]
BUDGET = {"quick": dict(cases=3000, seconds=60, shards=4),
          "thorough": dict(cases=120000, seconds=600, shards=16)}
REQUIRED = ["mon:trace-rejection-step", "mon:trace-stop-decision", "mon:trace-logged-statistics", "mon:model-final-masks", "mon:model-iteration-count", "mon:accepted-set-non-increasing",
            "mon:trace-count-equals-return", "mon:returns-int-within-limit", "mon:permutation-invariant",
            "mon:rescaling-invariant", "mon:azimuths-iterate-on-their-own-accept-state", "iteration_events"]


class IterHandler(logging.Handler):
    def __init__(self):
        super().__init__(level=logging.DEBUG)
        self.objs = []
        self.events = []
        self.values = []

    def emit(self, record):
        try:
            msg = record.getMessage()
        except Exception:
            return
        if msg.startswith("c_iteration:"):
            it = int(msg.split(":")[1])
            self.events.append((it, [(h.valid_window_boolean_mask.copy(), h.valid_peak_boolean_mask.copy())
                                     for h in self.objs]))
            self.values.append({})
        elif msg.startswith("\t") and ":" in msg and self.values:
            # the quantities the implementation itself computed in this iteration (floats are logged with repr)
            k, v = msg.strip().split(":", 1)
            try:
                self.values[-1][k.strip()] = float(v)
            except ValueError:
                pass


HANDLER = IterHandler()


def setup(ctx):
    import hvsrpy  # noqa
    lg = logging.getLogger("hvsrpy.window_rejection")
    lg.setLevel(logging.DEBUG)
    lg.propagate = False
    if HANDLER not in lg.handlers:
        lg.addHandler(HANDLER)


def gen_set(rng, n_curves=None):
    """Curves with clustered peak frequencies + outliers (+ duplicates)."""
    n_curves = int(n_curves if n_curves is not None else rng.integers(5, 81))
    n_freq = int(rng.choice([32, 64, 128]))
    f = np.geomspace(0.2, 20, n_freq)
    lf = np.log(f)
    centre = rng.uniform(lf[6], lf[-7])
    spread = float(rng.choice([0.03, 0.1, 0.25, 0.5]))
    out_frac = float(rng.choice([0.0, 0.1, 0.3]))
    amp = np.empty((n_curves, n_freq))
    for i in range(n_curves):
        c = centre + rng.normal(0, spread)
        if rng.random() < out_frac:
            c = rng.uniform(lf[3], lf[-4])
        if i and rng.random() < 0.1:
            amp[i] = amp[i - 1] * rng.uniform(0.8, 1.2)   # duplicated peak frequency
            continue
        amp[i] = 1 + rng.uniform(1.5, 6) * np.exp(-0.5 * ((lf - c) / rng.uniform(0.1, 0.3)) ** 2) \
            + 0.05 * rng.random(n_freq)
    return f, amp


def call_fdwra(ctx, hv, kw):
    import hvsrpy
    hvsrs = hv.hvsrs if isinstance(hv, hvsrpy.HvsrAzimuthal) else [hv]
    HANDLER.objs = hvsrs
    HANDLER.events = []
    HANDLER.values = []
    err = ret = None
    try:
        with np.errstate(all="ignore"):
            ret = hvsrpy.frequency_domain_window_rejection(hv, **kw)
    except Exception as e:
        err = e
    ev = HANDLER.events
    for e, vals in zip(ev, HANDLER.values):
        e[1].append(vals)            # snaps list gets the logged values as its last element
    HANDLER.objs = []
    ctx.count("fdwra_calls")
    ctx.count("iteration_events", len(ev))
    return ret, err, ev, hvsrs


def split_by_object(events, n_objs):
    """iteration numbers restart at 1 for each azimuth, in order."""
    per = []
    for it, snaps in events:
        if it == 1:
            per.append([])
        if not per:
            per.append([])
        per[-1].append((it, snaps))
    return per


def judge_call(ctx, hv, kw, label):
    import hvsrpy
    hvsrs0 = hv.hvsrs if isinstance(hv, hvsrpy.HvsrAzimuthal) else [hv]
    # a fifth of the calls are made on an object that is a copy.deepcopy / pickle round trip of the one built (a copy kept
    # aside to try several n, a result that came back from a worker process); decided from the curves, so replays agree
    pick = np.random.default_rng([int(hvsrs0[0].n_curves), int(abs(float(hvsrs0[0].amplitude[0, 0])) * 1e6) % (2 ** 31), len(label)])
    if pick.random() < 0.2:
        ctx.count("calls_on_objects_recreated_by_" + gen.recreate_in_place(pick, hv))
        hvsrs0 = hv.hvsrs if isinstance(hv, hvsrpy.HvsrAzimuthal) else [hv]
    ret, err, ev, hvsrs = call_fdwra(ctx, hv, kw)
    info = dict(label=label, n=kw["n"], max_iterations=kw["max_iterations"], distribution_fn=kw["distribution_fn"],
                distribution_mc=kw["distribution_mc"], search_range=list(kw["search_range_in_hz"]),
                n_curves=[int(h.n_curves) for h in hvsrs])
    per = split_by_object(ev, len(hvsrs))
    # entry state of each object = masks at its first iteration record
    models = []
    for a, h in enumerate(hvsrs):
        if a >= len(per):
            break
        it0, snaps = per[a][0]
        vw0, vp0 = snaps[a]
        # stored range / cached peaks after the entry search
        ctx.check(tuple(h._search_range_in_hz) == tuple(kw["search_range_in_hz"]), "entry-search-range-stored",
                  "the requested search range was not applied on entry", stored=list(h._search_range_in_hz), **info)
        for i in range(h.n_curves):
            probs = Oracle(h.frequency, h.amplitude[i], tuple(kw["search_range_in_hz"])).judge(h._main_peak_frq[i], h._main_peak_amp[i])
            if probs:
                ctx.check(False, "entry-peaks", f"azimuth {a} window {i}: {probs[0][1]}", **info)
                break
        else:
            ctx.check(True, "entry-peaks")
        models.append(MF.run(h.frequency, h.amplitude, h._main_peak_frq, vw0, vp0, kw["n"], kw["max_iterations"],
                             kw["distribution_fn"], kw["distribution_mc"], kw["search_range_in_hz"]))
    decidable = len(models) == len(hvsrs) and all(m.decidable for m in models)
    if err is not None:
        # a refusal is legitimate only where the model itself meets an undefined quantity
        # ... or takes a decision on a vanishing margin (e.g. all accepted peaks identical: the bounds collapse onto
        # the mean and the strict comparison may reject every window, after which no mean curve exists)
        legit = isinstance(err, ValueError) and any(m.undefined or not m.decidable for m in models)
        legit = legit or (isinstance(err, ValueError) and len(models) < len(hvsrs))
        ctx.check(legit, "no-unexpected-error", f"frequency_domain_window_rejection raised {err!r}", **info)
        return None
    # structural clauses
    ctx.check(isinstance(ret, (int, np.integer)) and not isinstance(ret, bool) and 1 <= ret <= kw["max_iterations"],
              "returns-int-within-limit", f"returned {ret!r} (max_iterations={kw['max_iterations']})", **info)
    counts = [len(p) for p in per]
    ctx.check(len(per) == len(hvsrs) and max(counts) == ret and all(c <= kw["max_iterations"] for c in counts)
              and all([it for it, _ in p] == list(range(1, len(p) + 1)) for p in per),
              "trace-count-equals-return", "number of iteration records differs from the returned count / exceeds the limit",
              records_per_object=counts, returned=ret, **info)
    for a, h in enumerate(hvsrs):
        if a >= len(per):
            break
        seq = [snaps[a] for _, snaps in per[a]] + [(h.valid_window_boolean_mask.copy(), h.valid_peak_boolean_mask.copy())]
        ok = all(not np.any(seq[k + 1][0] & ~seq[k][0]) and not np.any(seq[k + 1][1] & ~seq[k][1]) for k in range(len(seq) - 1))
        ctx.check(ok, "accepted-set-non-increasing", f"azimuth {a}: a window was re-accepted during the iterations",
                  masks=[s[1].astype(int).tolist() for s in seq][:6], **info)
        ctx.state([len(seq), int(seq[0][1].sum()), int(seq[-1][1].sum())])
    # trace conformance: every iteration, judged with the quantities the implementation itself logged (so the zero
    # tests are not ambiguous here): the rejection step, the logged statistics, and the decision to stop / go on
    from ..models import stats as MS
    for a, h in enumerate(hvsrs):
        if a >= len(per):
            break
        its = per[a]
        for k, (itn, snaps) in enumerate(its):
            vals = snaps[-1] if isinstance(snaps[-1], dict) else {}
            before = snaps[a][1]
            after = its[k + 1][1][a][1] if k + 1 < len(its) else h.valid_peak_boolean_mask
            need = ("mean_fn_before", "std_fn_before", "diff_before")
            if not all(x in vals for x in need):
                ctx.count("iterations_without_logged_values")
                continue
            mu, sd = vals["mean_fn_before"], vals["std_fn_before"]
            pk = h._main_peak_frq
            acc = before & ~np.isnan(pk)
            if acc.sum() >= 2:
                mm, ss = float(MS.mean(pk[acc], kw["distribution_fn"])), float(MS.std(pk[acc], kw["distribution_fn"]))
                scale = abs(mm) + 1.0
                ctx.check(abs(mu - mm) <= 1e-9 * scale and abs(sd - ss) <= 1e-9 * scale, "trace-logged-statistics",
                          f"azimuth {a} iteration {itn}: the statistics the implementation worked with are not those of the "
                          "windows accepted at that point", logged=[mu, sd], model=[mm, ss], **info)
            if np.isfinite(mu) and np.isfinite(sd):
                lo, hi = float(MS.nth(mu, sd, -kw["n"], kw["distribution_fn"])), float(MS.nth(mu, sd, kw["n"], kw["distribution_fn"]))
                want = before.copy()
                clear = np.ones(before.size, dtype=bool)
                for i in np.flatnonzero(before):
                    p = pk[i]
                    if np.isnan(p):
                        want[i] = False
                        continue
                    m = min(abs(p - lo), abs(p - hi)) / max(abs(lo), abs(hi), abs(p), 1e-300)
                    if m < 1e-9:
                        clear[i] = False
                    want[i] = (p > lo) and (p < hi)
                ctx.check(np.array_equal(after[clear], want[clear]), "trace-rejection-step",
                          f"azimuth {a} iteration {itn}: the windows accepted after this iteration are not those whose peak lies "
                          "inside mean -/+ n std (computed from the mean and std the implementation logged)",
                          before=before.astype(int), after=np.asarray(after).astype(int), expected=want.astype(int),
                          bounds=[lo, hi], peaks=pk, **info)
            last = (k == len(its) - 1)
            stop_known = None
            if all(x in vals for x in ("std_fn_after", "d_diff", "s_diff")):
                zero = vals["diff_before"] == 0 or sd == 0 or vals["std_fn_after"] == 0
                near = abs(vals["d_diff"] - 0.01) < 1e-11 or abs(vals["s_diff"] - 0.01) < 1e-11
                if not near:
                    stop_known = bool(zero or (vals["d_diff"] < 0.01 and vals["s_diff"] < 0.01))
            elif "std_fn_after" in vals:
                zero = vals["diff_before"] == 0 or sd == 0 or vals["std_fn_after"] == 0
                stop_known = True if zero else None
            if stop_known is not None and err is None:
                should_be_last = stop_known or itn == kw["max_iterations"]
                ctx.check(last == should_be_last, "trace-stop-decision",
                          f"azimuth {a} iteration {itn}: the run {'stopped' if last else 'went on'} although the logged quantities "
                          f"say it should {'go on' if not should_be_last else 'stop'}", logged=vals, **info)
    # model comparison
    if decidable:
        want_it = max(m.iterations for m in models)
        ctx.check(ret == want_it, "model-iteration-count", f"returned {ret} iterations, the published algorithm performs {want_it}",
                  per_object=[m.iterations for m in models], min_margin=min(m.min_margin for m in models), **info)
        for a, (h, m) in enumerate(zip(hvsrs, models)):
            ok = np.array_equal(h.valid_peak_boolean_mask, m.valid) and np.array_equal(h.valid_window_boolean_mask, m.valid_window)
            ctx.check(ok, "model-final-masks", f"azimuth {a}: final accept/reject decisions differ from the published algorithm",
                      got=h.valid_peak_boolean_mask.astype(int), want=m.valid.astype(int), peaks=h._main_peak_frq,
                      min_margin=m.min_margin, **info)
    else:
        ctx.count("ambiguous_or_undefined_runs")
    rejected = sum(int((~h.valid_peak_boolean_mask).sum()) for h in hvsrs)
    return dict(ret=ret, decidable=decidable, rejected=rejected, models=models, err=err)


def gen_kw(rng, f):
    return dict(n=float(rng.choice([0.3, 0.5, 1.0, 1.5, 2.0, 2.5, 3.0, 4.0, float(rng.uniform(0.3, 4))])),
                max_iterations=int(rng.choice([1, 2, 3, 5, 50])),
                distribution_fn=str(rng.choice(["lognormal", "normal"])),
                distribution_mc=str(rng.choice(["lognormal", "normal"])),
                search_range_in_hz=histories.rand_range(rng, f) if rng.random() < 0.6 else (None, None))


def fam_traditional(ctx, rng):
    import hvsrpy
    nc, big = gen.maybe_large(rng, ctx, None, [500, 900, 1500], p_quick=0.01, p_thorough=0.01)   # hours of windows
    f, amp = gen_set(rng, n_curves=nc) if big else gen_set(rng)
    kw = gen_kw(rng, f)
    hv = hvsrpy.HvsrTraditional(f, amp)
    r = judge_call(ctx, hv, kw, "first call")
    ctx.describe(kind="traditional", n_curves=int(amp.shape[0]), n_freq=int(f.size), **{k: (list(v) if isinstance(v, tuple) else v) for k, v in kw.items()},
                 returned=None if r is None else r["ret"])
    if r is None:
        return
    if r["rejected"] or r["ret"] >= 2:
        ctx.nontrivial(["trad", amp.shape[0], kw["n"], kw["max_iterations"], kw["distribution_fn"], kw["distribution_mc"],
                        r["ret"], r["rejected"]])
    masks = hv.valid_peak_boolean_mask.copy()
    # metamorphic: permutation of the windows, rescaling of all amplitudes
    def variant_decidable(hobj, events):
        """The model must be decidable with comfortable margins on the variant's own data as well (a sum taken in
        another order can turn an exact zero into 1e-17 and vice versa)."""
        if not events:
            return False
        vw0, vp0 = events[0][1][0]
        m = MF.run(hobj.frequency, hobj.amplitude, hobj._main_peak_frq, vw0, vp0, kw["n"], kw["max_iterations"],
                   kw["distribution_fn"], kw["distribution_mc"], kw["search_range_in_hz"])
        return m.decidable and m.min_margin > 1e-6

    perm = rng.permutation(amp.shape[0])
    hp = hvsrpy.HvsrTraditional(f, amp[perm])
    rp, ep, evp, _ = call_fdwra(ctx, hp, kw)
    if r["decidable"] and min(m.min_margin for m in r["models"]) > 1e-6:
        if variant_decidable(hp, evp):
            ctx.check(ep is None and rp == r["ret"] and np.array_equal(hp.valid_peak_boolean_mask, masks[perm]),
                      "permutation-invariant", "decisions change when the windows are permuted", error=repr(ep),
                      returned=[r["ret"], rp], n=kw["n"])
        else:
            ctx.count("ambiguous_or_undefined_runs")
        k = int(rng.integers(-10, 11))
        for fac, nm in ((2.0 ** k, f"2^{k}"), (float(10 ** rng.uniform(-3, 3)), "arbitrary")):
            hs = hvsrpy.HvsrTraditional(f, amp * fac)
            rs, es, evs, _ = call_fdwra(ctx, hs, kw)
            if not variant_decidable(hs, evs):
                ctx.count("ambiguous_or_undefined_runs")
                continue
            ctx.check(es is None and rs == r["ret"] and np.array_equal(hs.valid_peak_boolean_mask, masks),
                      "rescaling-invariant", f"decisions change when all amplitudes are multiplied by {nm}", error=repr(es),
                      returned=[r["ret"], rs], n=kw["n"], factor=fac)
    # a second call (history): monotone relative to *its* entry state, same oracle
    if rng.random() < 0.4:
        kw2 = gen_kw(rng, f)
        judge_call(ctx, hv, kw2, "second call")


def fam_azimuthal(ctx, rng):
    import hvsrpy
    naz = int(rng.integers(1, 7))
    f = None
    hs = []
    for _ in range(naz):
        ff, amp = gen_set(np.random.default_rng(int(rng.integers(0, 2 ** 31))), n_curves=int(rng.integers(5, 30)))
        if f is None:
            f = ff
        if amp.shape[1] != f.size:
            amp = np.vstack([np.interp(np.log(f), np.log(ff), a) for a in amp])
        hs.append(hvsrpy.HvsrTraditional(f, amp))
    hv = hvsrpy.HvsrAzimuthal(hs, list(np.sort(rng.uniform(0, 180, naz))))
    kw = gen_kw(rng, f)
    past = "none"
    if naz >= 2 and rng.random() < 0.4:
        # the object has a past: (an earlier run of the same request on the whole object, then) ONE azimuth looked at on
        # its own with another search range through the same public function - the request made now holds for every azimuth
        kw["find_peaks_kwargs"] = {}
        past = "one azimuth treated separately"
        with np.errstate(all="ignore"):
            try:
                if rng.random() < 0.5:
                    hvsrpy.frequency_domain_window_rejection(hv, **kw)
                    past = "same request before, then " + past
                else:
                    kw["search_range_in_hz"] = (None, None)
                hvsrpy.frequency_domain_window_rejection(hv.hvsrs[int(rng.integers(1, naz))], n=2.0,
                                                         search_range_in_hz=histories.rand_range(rng, f), find_peaks_kwargs={})
            except ValueError:
                past += " (a refusal on the way)"
        ctx.count("azimuthal_objects_with_a_past")
    r = judge_call(ctx, hv, kw, "azimuthal")
    ctx.describe(kind="azimuthal", n_azimuths=naz, past=past, n_curves=[int(h.n_curves) for h in hv.hvsrs],
                 **{k: (list(v) if isinstance(v, tuple) else v) for k, v in kw.items()}, returned=None if r is None else r["ret"])
    if r is not None and (r["rejected"] or r["ret"] >= 2):
        ctx.nontrivial(["az", naz, [int(h.n_curves) for h in hv.hvsrs], kw["n"], kw["max_iterations"], r["ret"], r["rejected"]])


def fam_azimuthal_after_time_domain(ctx, rng):
    """The usual order of a workflow: time-domain rejection with hvsr=<the azimuthal result> first, then the
    frequency-domain algorithm on that result (same range, so that the entry search is a no-op and the time-domain
    rejections hold).  Every azimuth is then iterated on ITS OWN accept state: each azimuth's final masks equal those
    of a stand-alone HvsrTraditional twin that starts from that azimuth's entry state."""
    import copy
    import hvsrpy
    naz = int(rng.integers(2, 6))
    n = int(rng.integers(8, 26))
    f = None
    hs = []
    for _ in range(naz):
        ff, amp = gen_set(np.random.default_rng(int(rng.integers(0, 2 ** 31))), n_curves=n)
        if f is None:
            f = ff
        if amp.shape[1] != f.size:
            amp = np.vstack([np.interp(np.log(f), np.log(ff), a) for a in amp])
        hs.append(hvsrpy.HvsrTraditional(f, amp))
    hv = hvsrpy.HvsrAzimuthal(hs, list(np.sort(rng.uniform(0, 180, naz))))
    sr = histories.rand_range(rng, f) if rng.random() < 0.3 else (None, None)
    hv.update_peaks_bounded(search_range_in_hz=sr, find_peaks_kwargs={})
    # windows of the recording: a few of them carry a transient
    scales = np.where(rng.random(n) < 0.2, 4.0, 1.0)
    records = []
    for i in range(n):
        a = rng.uniform(-1, 1, (3, 60)) * scales[i]
        records.append(gen.make_recording(a[0], a[1], a[2], 0.01))
    how = str(rng.choice(["maximum_value", "sta_lta"]))
    with np.errstate(all="ignore"):
        if how == "maximum_value":
            hvsrpy.maximum_value_window_rejection(records, maximum_value_threshold=0.5, normalized=True, hvsr=hv)
        else:
            hvsrpy.sta_lta_window_rejection(records, sta_seconds=0.05, lta_seconds=0.6, min_sta_lta_ratio=float(rng.choice([0.0, 0.3])),
                                            max_sta_lta_ratio=float(rng.choice([1.6, 2.5, 10.0])), hvsr=hv)
    entry = [(h.valid_window_boolean_mask.copy(), h.valid_peak_boolean_mask.copy()) for h in hv.hvsrs]
    kw = gen_kw(rng, f)
    kw["search_range_in_hz"] = sr
    kw["find_peaks_kwargs"] = {}
    twins = []
    for h, (vw, vp) in zip(hv.hvsrs, entry):
        t = hvsrpy.HvsrTraditional(np.array(h.frequency), np.array(h.amplitude))
        t.update_peaks_bounded(search_range_in_hz=sr, find_peaks_kwargs={})
        t.valid_window_boolean_mask = vw.copy()
        t.valid_peak_boolean_mask = vp.copy()
        twins.append(t)
    r = judge_call(ctx, hv, kw, f"azimuthal after {how} rejection with hvsr=")
    ctx.describe(kind="azimuthal-after-time-domain-rejection", n_azimuths=naz, n_windows=n, time_domain=how,
                 rejected_in_time_domain=[int(np.sum(~e[0])) for e in entry],
                 **{k: (list(v) if isinstance(v, tuple) else v) for k, v in kw.items()}, returned=None if r is None else r["ret"])
    if r is None:
        return
    bad = []
    for a, (h, t) in enumerate(zip(hv.hvsrs, twins)):
        try:
            with np.errstate(all="ignore"):
                hvsrpy.frequency_domain_window_rejection(t, **kw)
        except Exception as e:
            ctx.count("twin_raised")
            continue
        if not (np.array_equal(h.valid_window_boolean_mask, t.valid_window_boolean_mask)
                and np.array_equal(h.valid_peak_boolean_mask, t.valid_peak_boolean_mask)):
            bad.append(a)
    ctx.check(not bad, "azimuths-iterate-on-their-own-accept-state",
              "after a time-domain rejection with hvsr=<azimuthal>, the frequency-domain algorithm leaves azimuths with masks "
              "that differ from a stand-alone run from the same entry state", azimuths=bad, n_azimuths=naz, time_domain=how,
              entry_rejected=[int(np.sum(~e[0])) for e in entry],
              final_rejected=[int(np.sum(~h.valid_window_boolean_mask)) for h in hv.hvsrs],
              twin_rejected=[int(np.sum(~t.valid_window_boolean_mask)) for t in twins], n=kw["n"])
    if r["rejected"] or any(np.any(~e[0]) for e in entry):
        ctx.nontrivial(["az-after-td", naz, n, how, kw["n"], r["ret"], r["rejected"], [int(np.sum(~e[0])) for e in entry]])


def fam_limit(ctx, rng):
    """Aimed at the iteration limit: small n and small max_iterations on scattered peaks."""
    import hvsrpy
    n_curves = int(rng.integers(20, 60))
    f, amp, _ = gen.curve_set(rng, n_curves=n_curves, n_freq=64, kind="outliers", grid="log")
    kw = dict(n=float(rng.choice([0.3, 0.5, 0.7])), max_iterations=int(rng.choice([1, 2, 3])),
              distribution_fn=str(rng.choice(["lognormal", "normal"])), distribution_mc=str(rng.choice(["lognormal", "normal"])),
              search_range_in_hz=(None, None))
    hv = hvsrpy.HvsrTraditional(f, amp)
    r = judge_call(ctx, hv, kw, "limit")
    ctx.describe(kind="traditional-at-limit", n_curves=n_curves, **{k: (list(v) if isinstance(v, tuple) else v) for k, v in kw.items()},
                 returned=None if r is None else r["ret"])
    if r is not None:
        ctx.count("stopped_at_max_iterations", int(r["ret"] == kw["max_iterations"]))
        ctx.nontrivial(["limit", n_curves, kw["n"], kw["max_iterations"], r["ret"], r["rejected"]])


def fam_pre_rejected(ctx, rng):
    """Windows rejected BEFORE the call, with the same search range and find_peaks_kwargs={} so that the peak search on
    entry is a no-op: the accept state right after that search still holds the rejections, and they must stay."""
    import hvsrpy
    f, amp = gen_set(rng, n_curves=int(rng.integers(8, 40)))
    sr = histories.rand_range(rng, f) if rng.random() < 0.4 else (None, None)
    hv = hvsrpy.HvsrTraditional(f, amp)
    hv.update_peaks_bounded(search_range_in_hz=sr, find_peaks_kwargs={})
    ok = np.flatnonzero(hv.valid_peak_boolean_mask)
    if ok.size < 6:
        return
    # reject windows from the middle of the distribution (they would lie inside the bounds)
    order = ok[np.argsort(np.abs(np.log(hv._main_peak_frq[ok]) - np.median(np.log(hv._main_peak_frq[ok]))))]
    pre = order[: int(rng.integers(1, max(2, ok.size // 4)))]
    hv.valid_window_boolean_mask[pre] = False
    hv.valid_peak_boolean_mask[pre] = False
    kw = gen_kw(rng, f)
    kw["search_range_in_hz"] = sr
    kw["find_peaks_kwargs"] = {}
    before = hv.valid_peak_boolean_mask.copy()
    r = judge_call(ctx, hv, kw, "pre-rejected windows, entry search is a no-op")
    ctx.describe(kind="traditional-pre-rejected", n_curves=int(amp.shape[0]), pre_rejected=pre,
                 **{k: (list(v) if isinstance(v, tuple) else v) for k, v in kw.items()}, returned=None if r is None else r["ret"])
    if r is None:
        return
    ctx.check(not np.any(hv.valid_peak_boolean_mask & ~before), "accepted-set-non-increasing",
              "a window rejected before the call (entry peak search was a no-op) is accepted after it",
              before=before.astype(int), after=hv.valid_peak_boolean_mask.astype(int), n=kw["n"])
    ctx.nontrivial(["pre", amp.shape[0], len(pre), kw["n"], kw["max_iterations"], r["ret"], r["rejected"]])


def fam_scattered(ctx, rng):
    """Widely scattered, multi-modal peak frequencies with small n and many iterations: removing outliers on one side
    moves the bounds, so a window rejected earlier may fall inside them again - it must stay rejected."""
    import hvsrpy
    n_curves = int(rng.integers(6, 40))
    n_freq = 128
    f = np.geomspace(0.2, 40, n_freq)
    lf = np.log(f)
    modes = rng.uniform(lf[8], lf[-9], int(rng.integers(2, 5)))
    amp = np.empty((n_curves, n_freq))
    for i in range(n_curves):
        c = modes[int(rng.integers(0, modes.size))] + rng.normal(0, 0.25)
        amp[i] = 1 + rng.uniform(2, 6) * np.exp(-0.5 * ((lf - c) / 0.12) ** 2) + 0.02 * rng.random(n_freq)
    kw = dict(n=float(rng.choice([0.5, 0.75, 1.0, 1.25, 1.5, 2.0])), max_iterations=50,
              distribution_fn=str(rng.choice(["lognormal", "normal"])), distribution_mc=str(rng.choice(["lognormal", "normal"])),
              search_range_in_hz=(None, None))
    hv = hvsrpy.HvsrTraditional(f, amp)
    r = judge_call(ctx, hv, kw, "scattered")
    ctx.describe(kind="traditional-scattered", n_curves=n_curves, modes=np.exp(modes),
                 **{k: (list(v) if isinstance(v, tuple) else v) for k, v in kw.items()}, returned=None if r is None else r["ret"])
    if r is not None and r["ret"] >= 2:
        ctx.nontrivial(["scattered", n_curves, kw["n"], kw["distribution_fn"], r["ret"], r["rejected"]])


def fam_two_populations(ctx, rng):
    """A minority of windows with a much higher amplitude level and a shifted resonance: the arithmetic-mean curve then
    peaks at the minority's frequency and the geometric-mean curve at the majority's, so the distribution chosen for the
    mean curve (independently of the one for fn) decides |mean fn - mean-curve peak| and with it the stop test."""
    import hvsrpy
    n_curves = int(rng.integers(10, 50))
    n_freq = 128
    f = np.geomspace(0.2, 40, n_freq)
    lf = np.log(f)
    c1 = rng.uniform(lf[20], lf[-40])
    c2 = c1 + rng.choice([-1, 1]) * rng.uniform(0.15, 0.6)
    frac = rng.uniform(0.08, 0.3)
    amp = np.empty((n_curves, n_freq))
    for i in range(n_curves):
        minority = rng.random() < frac
        c = (c2 if minority else c1) + rng.normal(0, rng.choice([0.03, 0.1, 0.25]))
        level = rng.uniform(5, 40) if minority else 1.0
        amp[i] = level * (1 + rng.uniform(2, 5) * np.exp(-0.5 * ((lf - c) / rng.uniform(0.08, 0.2)) ** 2)) + 0.02 * rng.random(n_freq)
    dfn = str(rng.choice(["lognormal", "normal"]))
    dmc = "normal" if dfn == "lognormal" else "lognormal"
    if rng.random() < 0.2:
        dmc = dfn
    kw = dict(n=float(rng.choice([1.0, 1.5, 2.0, 2.5, 3.0])), max_iterations=50, distribution_fn=dfn, distribution_mc=dmc,
              search_range_in_hz=(None, None))
    hv = hvsrpy.HvsrTraditional(f, amp)
    # how far apart are the two mean-curve peaks before any rejection? (evidence: the cases where the choice matters)
    try:
        pa, pg = hv.mean_curve_peak("normal")[0], hv.mean_curve_peak("lognormal")[0]
        if pa != pg:
            ctx.count("cases_where_the_two_mean_curves_peak_at_different_frequencies")
    except ValueError:
        pass
    r = judge_call(ctx, hv, kw, "two-populations")
    ctx.describe(kind="traditional-two-populations", n_curves=n_curves, centres=[float(np.exp(c1)), float(np.exp(c2))],
                 **{k: (list(v) if isinstance(v, tuple) else v) for k, v in kw.items()}, returned=None if r is None else r["ret"])
    if r is not None and dfn != dmc:
        ctx.nontrivial(["two-populations", n_curves, kw["n"], dfn, dmc, r["ret"], r["rejected"]])


def fam_symmetric_grid(ctx, rng):
    """Peaks on an integer grid placed symmetrically about the mean-curve peak, so that |mean fn - mean-curve peak| is
    EXACTLY zero at the start of some iteration (sums of small integers are exact): the iteration must still reject the
    windows outside mean -/+ n std before the run ends."""
    import hvsrpy
    f = np.arange(1.0, 41.0)
    c = int(rng.integers(8, 30))
    core = [c] * int(rng.integers(4, 9)) + [c - 1, c + 1] * int(rng.integers(0, 3))
    k = int(rng.integers(3, 7))
    outl = [c - k, c + k] * int(rng.integers(1, 3))
    extra = [int(rng.integers(34, 40))] if rng.random() < 0.5 else []      # an asymmetric outlier removed in iteration 1
    peaks = core + outl + extra
    rng.shuffle(peaks)
    amp = np.empty((len(peaks), f.size))
    for i, p in enumerate(peaks):
        amp[i] = 1.0 + 4.0 * np.maximum(0.0, 1.0 - np.abs(f - p) / 2.0)
    kw = dict(n=float(rng.choice([1.0, 1.5, 2.0])), max_iterations=50, distribution_fn="normal",
              distribution_mc=str(rng.choice(["lognormal", "normal"])), search_range_in_hz=(None, None))
    hv = hvsrpy.HvsrTraditional(f, amp)
    r = judge_call(ctx, hv, kw, "symmetric integer grid")
    ctx.describe(kind="traditional-symmetric-integer-grid", peaks=peaks, **{k2: (list(v) if isinstance(v, tuple) else v) for k2, v in kw.items()},
                 returned=None if r is None else r["ret"])
    if r is not None:
        ctx.nontrivial(["symmetric", sorted(peaks), kw["n"], kw["distribution_mc"], r["ret"], r["rejected"]])


FAMILIES = [("two-populations-mixed-distributions", fam_two_populations), ("symmetric-integer-grid", fam_symmetric_grid), ("pre-rejected-windows", fam_pre_rejected), ("scattered-multimodal", fam_scattered), ("traditional", fam_traditional), ("azimuthal", fam_azimuthal), ("azimuthal-after-time-domain-rejection", fam_azimuthal_after_time_domain), ("iteration-limit", fam_limit),
            ("traditional-2", fam_traditional)]
