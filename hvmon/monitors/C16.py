"""C16 - SESAME reliability and clarity verdicts match the 2004 guideline.

Probe: hvsrpy.sesame.reliability / clarity at their boundary (stdout captured and discarded).
Oracle: models/sesame.py written from the guideline text, evaluated for every admissible peak of the
mean curve in the search range (C08 oracle); metamorphic relations on the real code (more/longer
windows never fail ii; a smaller fn_std never fails v; verbosity levels agree).
"""

import contextlib
import io

import numpy as np

from .. import gen
from ..models import sesame as MS
from ..models.peaks import Oracle

PROPERTY = "C16"
NUM = 16
RULE = ("cases = mean curve with one dominant and several secondary peaks on a log grid (adjacent ratio < 1.5; a coarse-grid "
        "class with ratio up to 5), peak frequency placed in each of the five threshold bands and exactly on 0.2/0.5/1/2 Hz, "
        "std curve scaled to straddle 2/3 and theta, window length/count straddling 10/lw and nc=200 (down to a fraction of one cycle), fn_std straddling "
        "epsilon*f0, search ranges (none / half-open / bounded / on-sample), verbose 0/1/2; non-trivial = neither all-pass "
        "nor all-fail; distinct = (band, grid, range class, verdict vector) signatures")
ASSUMPTIONS = [
    "sigma_A(f) = exp(std_curve) (the factor by which the lognormal mean curve is multiplied/divided)",
    "when a search range is given, criteria that scan neighbouring frequencies may be evaluated on the whole curve or on the curve restricted to the range (the guideline has no notion of a search range); both readings are accepted",
    "a verdict whose deciding comparison is within 1e-9 of its threshold, or whose peak is tied, is not judged; at an exact band edge either adjacent column is accepted",
]
NOT_REACHED = ["curves without a peak in the range (refused / undefined)", "grids above 10000 points"]
BUDGET = {"quick": dict(cases=15000, seconds=60, shards=4),
          "thorough": dict(cases=1500000, seconds=600, shards=16)}
REQUIRED = ["mon:reliability-verdicts", "mon:clarity-verdicts", "mon:more-windows-never-fail-ii",
            "mon:smaller-fn-std-never-fails-v", "mon:verbosity-levels-agree", "mon:range-argument-unchanged", "mon:arguments-unchanged"]

BANDS = [(0.05, 0.2), (0.2, 0.5), (0.5, 1.0), (1.0, 2.0), (2.0, 20.0)]


def quiet(fn, *a, **k):
    buf = io.StringIO()
    with contextlib.redirect_stdout(buf):
        return fn(*a, **k)


def gen_case(rng, coarse=False, ctx=None):
    band = int(rng.integers(0, 5))
    edge = rng.random() < 0.2
    if edge:
        f0 = float(rng.choice([0.2, 0.5, 1.0, 2.0]))
    else:
        lo, hi = BANDS[band]
        f0 = float(np.exp(rng.uniform(np.log(lo * 1.02), np.log(hi * 0.98))))
    ratio = float(rng.uniform(1.02, 1.45)) if not coarse else float(rng.uniform(1.5, 5.0))
    if not coarse and rng.random() < 0.25:
        # neighbouring samples right at the +-5 % band of criterion iv (1.05 above, 1/0.95 = 1.0526 for the sample below)
        ratio = float(rng.choice([1.047, 1.0495, 1.0505, 1.0515, 1.0522, 1.0529, 1.055]))
    nlo, nhi = int(rng.integers(2, 30)), int(rng.integers(2, 30))
    dense = (not coarse) and (bool(rng.random() < 0.006) or (ctx is not None and gen.every_nth(ctx, 0.006)))
    if dense:
        # an un-resampled curve: thousands of closely spaced samples, the highest peak only a few samples wide
        ratio = float(rng.choice([1.0004, 1.0008]))
        nlo, nhi = int(rng.integers(2500, 5000)), int(rng.integers(2500, 5000))
    f = f0 * ratio ** np.arange(-nlo, nhi + 1)
    p = nlo
    lf = np.log(f / f0)
    a0 = float(rng.choice([1.5, 1.9, 1.9995, 2.0, 2.0005, 2.1, 3.0, 6.0]))
    width = float(rng.uniform(0.15, 1.2))
    base = float(rng.uniform(0.3, 1.2))
    mean = base + (a0 - base) * np.exp(-0.5 * (lf / width) ** 2)
    for _ in range(int(rng.integers(0, 4))):      # secondary peaks, lower than the main one
        c = rng.uniform(lf[0], lf[-1])
        mean = mean + rng.uniform(0.05, 0.6) * (a0 - base) * np.exp(-0.5 * ((lf - c) / rng.uniform(0.05, 0.3)) ** 2)
    mean = np.maximum(mean, 0.05)
    if dense:
        mean = 0.6 * mean
        top = float(np.max(mean))                                             # a spike one or three samples wide above everything else
        if rng.random() < 0.5:
            mean[p - 1:p + 2] = top * np.array([1.2, 1.9, 1.2])
        else:
            mean[p] = top * 1.9
    mean[p] = max(mean[p], np.max(mean) * (1.0 + 1e-3)) if rng.random() < 0.8 else mean[p]
    flat_top = rng.random() < 0.15
    if flat_top and p + 2 < f.size:
        w = int(rng.integers(2, 4))                       # a flat-topped main peak: 2-3 samples of exactly equal height
        mean[p:p + w] = mean[p]
    theta = [3.0, 2.5, 2.0, 1.78, 1.58][min(4, sum(f0 >= e for e in (0.2, 0.5, 1.0, 2.0)))]
    target = float(rng.choice([theta, 2.0, 3.0])) * float(rng.choice([0.8, 0.97, 0.9995, 1.0, 1.0005, 1.03, 1.3]))
    std = np.log(target) * (1 + 0.15 * np.sin(3 * lf + rng.uniform(0, 6))) * np.ones_like(f)
    std = np.abs(std) + 1e-3
    lw = float(10.0 / f0 * rng.choice([0.5, 0.98, 0.9995, 1.0, 1.0005, 1.02, 2.0, 10.0]))
    nw = int(max(1, round(200.0 / (lw * f0) * rng.choice([0.5, 0.99, 1.01, 2.0]))))
    if rng.random() < 0.35:
        # criterion ii right at its threshold: nc = lw*nw*f0 a fraction of a cycle on either side of 200
        nw = int(rng.integers(2, 300))
        lw = float(200.0 * rng.choice([0.9985, 0.9996, 1.0, 1.0004, 1.001, 1.002, 1.0024, 1.003, 1.0051, 1.01]) / (nw * f0))
    eps = [0.25, 0.2, 0.15, 0.1, 0.05][min(4, sum(f0 >= e for e in (0.2, 0.5, 1.0, 2.0)))]
    fn_std = float(eps * f0 * rng.choice([0.0, 1e-9, 0.5, 0.98, 0.9995, 1.0005, 1.02, 2.0]))     # (0: every window peaks at the same sample)
    rk = str(rng.choice(["none", "none", "low", "high", "both", "on-sample", "excludes-main-peak", "excludes-main-peak"]))
    lo = hi = None
    if rk == "excludes-main-peak":
        # the dominant peak lies OUTSIDE the range: the verdicts must be those of the highest peak inside it
        side = rng.random() < 0.5
        c = float(np.exp(rng.uniform(np.log(1.6), np.log(6.0))))
        lf2 = np.log(f / (f0 * c if side else f0 / c))
        mean = mean + 0.45 * (a0 - base) * np.exp(-0.5 * (lf2 / 0.12) ** 2)      # a clear secondary peak inside the range
        if side:
            lo = float(f0 * 1.25)
            hi = None if rng.random() < 0.6 else float(f[-1] * 2)
        else:
            hi = float(f0 / 1.25)
            lo = None if rng.random() < 0.6 else float(f[0] / 2)
    if rk in ("low", "both"):
        lo = float(f0 / rng.uniform(1.5, 8))
    if rk in ("high", "both"):
        hi = float(f0 * rng.uniform(1.5, 8))
    if rk == "on-sample":
        lo, hi = float(f[max(0, p - int(rng.integers(2, 8)))]), float(f[min(f.size - 1, p + int(rng.integers(2, 8)))])
    return dict(f0=f0, band=band, edge=bool(edge), ratio=ratio, range_class=rk, lw=lw, nw=nw, fn_std=fn_std), f, mean, std, (lo, hi)


def admissible_peaks(f, mean, sr):
    o = Oracle(f, mean, sr)
    if o.must:
        cand = {i: lr for i, lr in o.admissible.items() if mean[i] >= o.must_amp}
    else:
        cand = dict(o.admissible)
    return sorted(cand)


def restricted(f, sr):
    """Index range [i0, i1] nearest-inclusive to the limits (the reading that trims the curve)."""
    lo, hi = sr
    i0 = 0 if lo is None else int(np.argmin(np.abs(f - lo)))
    i1 = f.size - 1 if hi is None else int(np.argmin(np.abs(f - hi)))
    return i0, i1


def model_options(f, mean, std, sr, lw, nw, fn_std):
    """All admissible (reliability, clarity) verdict vectors."""
    opts = []
    for p in admissible_peaks(f, mean, sr):
        views = [(f, mean, std, p)]
        if sr != (None, None):
            i0, i1 = restricted(f, sr)
            if i0 <= p <= i1:
                views.append((f[i0:i1 + 1], mean[i0:i1 + 1], std[i0:i1 + 1], p - i0))
        for (ff, mm, ss, pp) in views:
            opts.append((MS.reliability(ff, mm, ss, lw, nw, pp), MS.clarity(ff, mm, ss, fn_std, pp)))
    return opts


def matches(real, want):
    """every verdict is exactly 0 or 1 (the documented encoding; callers add them up) and equals the model's"""
    return len(real) == len(want) and all(r in (0, 1) and (w is None or bool(r) == w) for r, w in zip(real, want))


def fam_verdicts(ctx, rng, coarse=False):
    from hvsrpy import sesame
    meta, f, mean, std, sr = gen_case(rng, coarse, ctx)
    ctx.describe(**meta, search_range=list(sr), n=int(f.size), frequency=f, mean_curve=mean)
    opts = model_options(f, mean, std, sr, meta["lw"], meta["nw"], meta["fn_std"])
    if not opts:
        ctx.count("cases_without_admissible_peak")
        return
    info = dict(f0=meta["f0"], band=meta["band"], edge=meta["edge"], search_range=list(sr), lw=meta["lw"], nw=meta["nw"],
                fn_std=meta["fn_std"], ratio=meta["ratio"])
    v = int(rng.integers(0, 3))
    fa, ma, sa, lw_a, nw_a, fs_a = f, mean, std, meta["lw"], meta["nw"], meta["fn_std"]
    if tuple(sr) == (None, None) and rng.random() < 0.3:
        # a curve tabulated against period: the same samples listed from high to low frequency
        fa, ma, sa = f[::-1].copy(), mean[::-1].copy(), std[::-1].copy()
        f, mean, std = fa, ma, sa
        ctx.count("curves_listed_with_descending_frequency")
    if rng.random() < 0.3:
        # the curves as a caller may hold them (strided / read-only / big-endian / Fortran-derived views of the same values),
        # the counts and lengths as other numeric types holding the same value
        fa, ma, sa = (gen.reform(rng, a, arrays_only=True)[0] for a in (f, mean, std))
        nw_a = gen.scalar_form(rng, nw_a, allow=["int", "int64", "int32", "float", "float64"])[0]
        lw_a = gen.scalar_form(rng, lw_a, allow=["float", "float64", "zero-dim-array"])[0]
        fs_a = gen.scalar_form(rng, fs_a, allow=["float", "float64", "zero-dim-array"])[0]
        ctx.count("calls_with_arguments_in_other_forms")
    try:
        rel = quiet(sesame.reliability, lw_a, nw_a, fa, ma, sa, search_range_in_hz=sr, verbose=v)
        cla = quiet(sesame.clarity, fa, ma, sa, fs_a, search_range_in_hz=sr, verbose=v)
    except Exception as e:
        # out of the statement's domain when the range holds no peak that *must* be found (C08 oracle)
        if not Oracle(f, mean, sr).must:
            ctx.count("cases_without_must_find_peak_refused")
            return
        ctx.check(False, "no-unexpected-error", f"sesame raised {e!r} (verbose={v})", verbose=v, **info)
        return
    ctx.count("sesame_calls", 2)
    okr = any(matches(rel, o[0]) for o in opts)
    okc = any(matches(cla, o[1]) for o in opts)
    amb = sum(x is None for o in opts[:1] for x in o[0] + o[1])
    ctx.count("ambiguous_verdict_entries", amb)
    ctx.check(okr, "reliability-verdicts", "reliability verdicts differ from the guideline's criteria",
              got=[int(x) for x in rel], want=[o[0] for o in opts[:3]], **info)
    ctx.check(okc, "clarity-verdicts", "clarity verdicts differ from the guideline's criteria",
              got=[int(x) for x in cla], want=[o[1] for o in opts[:3]], **info)
    # metamorphic relations on the real code
    lw2 = meta["lw"] * float(rng.uniform(1, 4))
    nw2 = meta["nw"] + int(rng.integers(0, 50))
    rel2 = quiet(sesame.reliability, lw2, nw2, f, mean, std, search_range_in_hz=sr, verbose=0)
    ctx.check(not (rel[1] == 1 and rel2[1] == 0), "more-windows-never-fail-ii", "criterion ii failed after adding / lengthening windows",
              before=[meta["lw"], meta["nw"]], after=[lw2, nw2], **info)
    fs2 = meta["fn_std"] * float(rng.uniform(0, 1))
    cla2 = quiet(sesame.clarity, f, mean, std, fs2, search_range_in_hz=sr, verbose=0)
    ctx.check(not (cla[4] == 1 and cla2[4] == 0), "smaller-fn-std-never-fails-v", "criterion v failed after reducing fn_std",
              before=meta["fn_std"], after=fs2, **info)
    agree = True
    err = None
    for vv in (0, 1, 2):
        try:
            # (the very objects of the first call are handed over again: a script asks for the verdicts, then for the report)
            r = quiet(sesame.reliability, lw_a, nw_a, fa, ma, sa, search_range_in_hz=sr, verbose=vv)
            c = quiet(sesame.clarity, fa, ma, sa, fs_a, search_range_in_hz=sr, verbose=vv)
            agree = agree and np.array_equal(r, rel) and np.array_equal(c, cla)
        except Exception as e:
            agree, err = False, f"verbose={vv}: {e!r}"
    ctx.check(agree, "verbosity-levels-agree", "verdicts depend on the verbosity level", error=err, **info)
    same = (float(lw_a) == meta["lw"] and float(nw_a) == meta["nw"] and float(fs_a) == meta["fn_std"]
            and np.array_equal(np.asarray(fa, float), f) and np.array_equal(np.asarray(ma, float), mean) and np.array_equal(np.asarray(sa, float), std))
    ctx.check(same, "arguments-unchanged", "an argument object handed to reliability / clarity holds another value afterwards",
              lw=[meta["lw"], float(lw_a)], nw=[meta["nw"], float(nw_a)], fn_std=[meta["fn_std"], float(fs_a)],
              argument_types=[type(lw_a).__name__, type(nw_a).__name__, type(fs_a).__name__], **{k: v for k, v in info.items() if k not in ("lw", "nw", "fn_std")})
    tot = list(rel) + list(cla)
    if 0 < sum(tot) < 9:
        ctx.nontrivial([meta["band"], meta["edge"], meta["range_class"], [int(x) for x in tot], round(meta["ratio"], 3)])
    ctx.state([meta["band"], meta["edge"], meta["range_class"], tuple(int(x) for x in tot)])


def fam_sequence(ctx, rng):
    """Several sites assessed one after the other by one script that keeps ONE search-range object (a list, a tuple
    or an array, closed or open-ended; half of the scripts look at each whole curve first): each site's verdicts are those of that site alone, and the
    range object is the caller's and keeps its value."""
    from hvsrpy import sesame
    k = int(rng.integers(2, 5))
    cases = [gen_case(rng) for _ in range(k)]
    f0s = [c[0]["f0"] for c in cases]
    form = str(rng.choice(["open-below", "open-above", "open-both", "closed", "closed"]))
    look_first = bool(rng.random() < 0.5)      # the script first assesses each site's WHOLE curve, then within the range
    lo = None if form in ("open-below", "open-both") else float(min(f0s) / rng.uniform(1.5, 8))
    hi = None if form in ("open-above", "open-both") else float(max(f0s) * rng.uniform(1.5, 8))
    container = str(rng.choice(["list", "list", "tuple", "object-array"]))
    shared = [lo, hi] if container == "list" else (lo, hi) if container == "tuple" else np.array([lo, hi], dtype=object)
    ctx.describe(sites=k, f0s=f0s, search_range=[lo, hi], container=container, whole_curve_first=look_first,
                 grids=[[float(c[1][0]), float(c[1][-1]), int(c[1].size)] for c in cases])
    judged = 0
    for i, (meta, f, mean, std, _) in enumerate(cases):
        opts = model_options(f, mean, std, (lo, hi), meta["lw"], meta["nw"], meta["fn_std"])
        if not opts:
            ctx.count("cases_without_admissible_peak")
            continue
        info = dict(f0=meta["f0"], band=meta["band"], edge=meta["edge"], search_range=[lo, hi], lw=meta["lw"], nw=meta["nw"],
                    fn_std=meta["fn_std"], ratio=meta["ratio"], site_number=i, container=container,
                    grid=[float(f[0]), float(f[-1])], mechanism="sites-assessed-with-one-range-object")
        if look_first:
            try:
                quiet(sesame.reliability, meta["lw"], meta["nw"], f, mean, std, search_range_in_hz=(None, None), verbose=0)
                quiet(sesame.clarity, f, mean, std, meta["fn_std"], search_range_in_hz=(None, None), verbose=0)
                ctx.count("whole_curve_calls_before_the_ranged_call")
            except Exception:
                pass                    # a whole curve without a peak: refused, judged by the other families
        try:
            rel = quiet(sesame.reliability, meta["lw"], meta["nw"], f, mean, std, search_range_in_hz=shared, verbose=0)
            cla = quiet(sesame.clarity, f, mean, std, meta["fn_std"], search_range_in_hz=shared, verbose=0)
        except Exception as e:
            if not Oracle(f, mean, (lo, hi)).must:
                ctx.count("cases_without_must_find_peak_refused")
            else:
                ctx.check(False, "no-unexpected-error", f"sesame raised {e!r} for site {i} of a sequence", **info)
            continue
        ctx.count("sesame_calls", 2)
        judged += 1
        ctx.check(any(matches(rel, o[0]) for o in opts), "reliability-verdicts",
                  f"reliability verdicts of site {i} of a sequence differ from the guideline's criteria for that site",
                  got=[int(x) for x in rel], want=[o[0] for o in opts[:3]], **info)
        ctx.check(any(matches(cla, o[1]) for o in opts), "clarity-verdicts",
                  f"clarity verdicts of site {i} of a sequence differ from the guideline's criteria for that site",
                  got=[int(x) for x in cla], want=[o[1] for o in opts[:3]], **info)
        ctx.check(list(shared) == [lo, hi], "range-argument-unchanged", "the caller's search-range object was modified by sesame",
                  now=[None if x is None else float(x) for x in shared], **info)
    if judged >= 2:
        ctx.nontrivial(["sequence", k, form, container, [round(x, 3) for x in f0s]])
    ctx.state(["sequence", form, container, judged])


def fam_coarse(ctx, rng):
    fam_verdicts(ctx, rng, coarse=True)


FAMILIES = [("guideline-verdicts", fam_verdicts), ("guideline-verdicts-2", fam_verdicts), ("coarse-grid", fam_coarse), ("sites-in-sequence", fam_sequence)]
