"""C17 - power spectral densities are correctly normalised; diffuse-field HVSR agrees.

Probes: hvsrpy.process with PsdProcessingSettings / HvsrDiffuseFieldProcessingSettings, hvsrpy.preprocess
with PsdPreProcessingSettings.  Oracles: a Parseval identity evaluated in the *time domain*, amplitude
scaling, Welch averaging, the diffuse-field expression assembled from the real unsmoothed PSDs and the
independent smoothing model, and analytic series for differentiation / instrument-response removal.
"""

import copy

import numpy as np
from scipy.signal.windows import tukey

from .. import gen
from ..ctx import biteq, close, maxrel
from ..models import smoothing as SM

PROPERTY = "C17"
NUM = 17
RULE = ("cases = 1-12 (now and then 20-130, of unequal power) equal-length windows (even/odd lengths 64..40000, dt from 8 values, signals incl. DC offsets and "
        "Nyquist-rate alternation) x Tukey width x optional user FFT length x smoothing off / on with each operator; "
        "preprocessing cases = differentiate on/off x flat or pole-zero response x filter; non-trivial = signal with non-zero "
        "DC or Nyquist content (so the two excluded bins matter) or >= 2 windows; distinct = (oracle, n windows, length, dt, "
        "alpha, n_fft, operator) signatures")
ASSUMPTIONS = [
    "one-sided PSD, normalised by L*fs*mean(taper^2), averaged over windows (Welch 1967) as hvsrpy documents",
    "the identity is summed over the bins strictly between 0 Hz and Nyquist, so the treatment of those two bins is not judged",
    "scipy tukey and numpy fft are trusted primitives; H(f) of a pole-zero response is evaluated by direct products (no scipy.signal.freqs)",
]
NOT_REACHED = ["odd FFT lengths in the PSD *processing* step (fft_settings={'n': None} with odd windows crashes in np.zeros(n/2); outside the statement's quantifier) - the preprocessing step is exercised with odd lengths"]
BUDGET = {"quick": dict(cases=1200, seconds=60, shards=4),
          "thorough": dict(cases=100000, seconds=600, shards=16)}
REQUIRED = ["mon:parseval", "mon:amplitude-squared-scaling", "mon:welch-average", "mon:diffuse-field-from-psds",
            "mon:smoothed-psd-is-smoothed-raw-psd", "mon:differentiation-analytic", "mon:flat-response-analytic",
            "mon:pole-zero-response-analytic",
            "mon:response-then-differentiation-analytic"]

DTS = [0.002, 0.004, 0.005, 0.01, 0.02, 1 / 75, 1 / 150, 0.0078125]


def gen_windows(rng, k=None, L=None):
    many = k is None and L is None and rng.random() < 0.2
    k = int(k if k is not None else rng.choice([1, 1, 2, 3, 6, 12]))
    L = int(L if L is not None else rng.choice([64, 101, 500, 1001, 4096, 9000, 40000]))
    if many:
        # a long recording split into many (short) windows: tens to a hundred of them, of unequal power
        k = int(rng.choice([31, 33, 50, 64, 75, 100, int(rng.integers(20, 130))]))
        L = int(rng.choice([64, 101, 500]))
    sc = gen.scale(rng)
    t = np.arange(L)
    wins = []
    for _ in range(k):
        w = []
        for _c in range(3):
            x = gen.signal(rng, L) * sc
            if rng.random() < 0.5:
                x = x + sc * float(rng.uniform(-3, 3))                 # DC offset
            if rng.random() < 0.4:
                x = x + sc * float(rng.uniform(0.5, 3)) * (-1.0) ** t  # Nyquist-rate alternation
            w.append(x)
        if many:
            g = float(10 ** rng.uniform(-1, 1))                   # windows differ in power (non-stationary noise)
            w = [x * g for x in w]
        wins.append(w)
    return wins, k, L, sc


_SPELLING = [0]


def pick_spelling(ctx, rng):
    """How the case writes the default FFT normalisation: leaves it out, or spells it norm=None / norm="backward" (numpy's
    two names of the default); with or without a length."""
    _SPELLING[0] = int(rng.choice([0, 0, 1, 2, 3]))
    if _SPELLING[0]:
        ctx.count("cases_spelling_the_default_fft_settings_explicitly")


def spelled(user_n):
    k = _SPELLING[0]
    base = {} if user_n is None else dict(n=int(user_n))
    if k == 0:
        return None if user_n is None else base
    if k == 1:
        return dict(base, norm=None)
    if k == 2:
        return dict(base, norm="backward")
    return base                      # (an empty dict when no length is asked for)


def psd_settings(alpha, user_n, smoothing=None):
    import hvsrpy
    st = hvsrpy.PsdProcessingSettings(window_type_and_width=("tukey", alpha),
                                      smoothing=dict(operator="konno_and_ohmachi", bandwidth=40., center_frequencies_in_hz=np.array([1.0])),
                                      fft_settings=spelled(user_n))
    st.smoothing = smoothing
    return st


def run_psd(ctx, wins, dt, alpha, user_n, smoothing=None, scale=1.0):
    import hvsrpy
    recs = [gen.make_recording(w[0] * scale, w[1] * scale, w[2] * scale, dt) for w in wins]
    st = psd_settings(alpha, user_n, smoothing)
    ctx.count("process_calls")
    with np.errstate(all="ignore"):
        out = hvsrpy.process(recs, st)
    return out, st.fft_settings["n"]


def fam_parseval(ctx, rng):
    pick_spelling(ctx, rng)
    wins, k, L, sc = gen_windows(rng)
    dt = float(DTS[int(rng.integers(0, len(DTS)))])
    alpha = float(rng.choice(gen.TUKEY))
    user_n = None if rng.random() < 0.6 else int(rng.choice([2 ** 15, 2 ** 16, 2 ** 17]))
    info = dict(k=k, L=L, dt=dt, alpha=alpha, user_n=user_n, scale=sc)
    ctx.describe(**info)
    out, n = run_psd(ctx, wins, dt, alpha, user_n)
    fs = 1.0 / dt
    df = fs / n
    tap = tukey(L, alpha)
    U = np.mean(tap ** 2)
    alt = (-1.0) ** np.arange(L)
    ok_all = True
    worst = 0.0
    for ci, comp in enumerate(("ns", "ew", "vt")):
        p = out[comp]
        ctx.check(p.frequency.shape == (n // 2 + 1,) and close(p.frequency, np.fft.rfftfreq(n, dt), rtol=1e-12),
                  "psd-frequency-grid", "unsmoothed PSD is not reported on the FFT grid", **info)
        lhs = float(np.sum(p.amplitude[1:n // 2]) * df)
        rhs = 0.0
        for w in wins:
            y = tap * w[ci]
            rhs += (np.mean(y ** 2) - (np.sum(y) ** 2 + np.sum(alt * y) ** 2) / (n * L)) / U
        rhs /= k
        # the subtraction cancels for signals dominated by DC / Nyquist content: absolute tolerance from mean(y^2)
        tot = float(np.mean([np.mean((tap * w[ci]) ** 2) for w in wins]) / U)
        err = abs(lhs - rhs) / max(tot, 1e-300)
        worst = max(worst, err)
        ok_all = ok_all and err <= 1e-9
    ctx.check(ok_all, "parseval", "sum of the interior PSD bins x df does not account for the mean square of the tapered signal",
              worst_relative_error=worst, n=n, **info)
    # amplitude^2 scaling: bit exact for powers of two
    kk = int(rng.integers(-8, 9))
    out2, _ = run_psd(ctx, wins, dt, alpha, n, scale=2.0 ** kk)
    ok = all(biteq(out2[c].amplitude, out[c].amplitude * 4.0 ** kk) for c in ("ns", "ew", "vt"))
    c = float(rng.uniform(0.1, 10))
    out3, _ = run_psd(ctx, wins, dt, alpha, n, scale=c)
    ok3 = all(close(out3[cc].amplitude, out[cc].amplitude * c * c, rtol=1e-12, atol=1e-14 * float(np.max(out[cc].amplitude)) * c * c)
              for cc in ("ns", "ew", "vt"))
    ctx.check(ok and ok3, "amplitude-squared-scaling", "PSD does not scale with the square of the amplitude",
              pow2_bit_exact=ok, arbitrary_ok=ok3, factor=c, **info)
    if k >= 2:
        acc = {c: np.zeros(n // 2 + 1) for c in ("ns", "ew", "vt")}
        for w in wins:
            o1, _ = run_psd(ctx, [w], dt, alpha, n)
            for cc in acc:
                acc[cc] += o1[cc].amplitude
        okw = all(close(acc[cc] / k, out[cc].amplitude, rtol=1e-12, atol=1e-14 * float(np.max(out[cc].amplitude))) for cc in acc)
        ctx.check(okw, "welch-average", "PSD of several windows is not the average of the single-window PSDs",
                  maxrel=max(maxrel(acc[cc] / k, out[cc].amplitude) for cc in acc), **info)
    ctx.nontrivial(["parseval", k, L, dt, alpha, n])
    ctx.state([k > 1, alpha, user_n])


def fam_diffuse(ctx, rng):
    pick_spelling(ctx, rng)
    import hvsrpy
    wins, k, L, sc = gen_windows(rng, L=int(rng.choice([101, 500, 4096, 9000])))
    dt = float(DTS[int(rng.integers(0, len(DTS)))])
    alpha = float(rng.choice(gen.TUKEY))
    op = [o for o in gen.OPERATORS if o != "savitzky_and_golay"][int(rng.integers(0, 6))]
    n_guess = gen.nextpow2(L)
    sm = gen.smoothing_dict(rng, dt, n_guess, op=op)
    fcs = np.asarray(sm["center_frequencies_in_hz"], float)
    info = dict(k=k, L=L, dt=dt, alpha=alpha, op=op, b=sm["bandwidth"])
    ctx.describe(**info, fcs=fcs)
    raw, n = run_psd(ctx, wins, dt, alpha, None)
    f = np.fft.rfftfreq(n, dt)
    # smoothed PSD == model smoothing of the real raw PSD
    smoothed, _ = run_psd(ctx, wins, dt, alpha, n, smoothing=dict(sm))
    rows = np.vstack([raw[c].amplitude for c in ("ns", "ew", "vt")])
    res = SM.smooth(op, f, rows, fcs, sm["bandwidth"])
    real = np.vstack([smoothed[c].amplitude for c in ("ns", "ew", "vt")])
    bad = SM.mismatches(real, res)
    ctx.check(not bad and close(smoothed["ns"].frequency, fcs, rtol=0), "smoothed-psd-is-smoothed-raw-psd",
              "smoothed PSD differs from the kernel average of the unsmoothed PSD", n_bad=len(bad), **info)
    # diffuse field
    recs = [gen.make_recording(w[0], w[1], w[2], dt) for w in wins]
    st = hvsrpy.HvsrDiffuseFieldProcessingSettings(window_type_and_width=("tukey", alpha), smoothing=dict(sm),
                                                   fft_settings=dict(n=int(n)))
    ctx.count("process_calls")
    try:
        with np.errstate(all="ignore"):
            dfh = hvsrpy.process(recs, st)
    except ValueError:
        ctx.count("process_refused")
        return
    res2 = SM.smooth(op, f, np.vstack([rows[0] + rows[1], rows[2]]), fcs, sm["bandwidth"])
    cols = [j for j in range(fcs.size) if j not in res2.alts and j not in res2.unbounded and not res2.empty[j] and res2.base[1, j] > 0]
    with np.errstate(all="ignore"):
        want = np.sqrt(res2.base[0] / res2.base[1])
    got = np.asarray(dfh.amplitude)
    ok = close(got[cols], want[cols], rtol=1e-9)
    ctx.count("ambiguous_skipped", fcs.size - len(cols))
    ctx.check(ok, "diffuse-field-from-psds", "diffuse-field HVSR differs from sqrt(S(Pns+Pew)/S(Pvt)) built from the same windows' PSDs",
              maxrel=maxrel(got[cols], want[cols]), **info)
    ctx.nontrivial(["diffuse", k, L, dt, alpha, op])


def gen_pre(rng):
    L = int(rng.choice([200, 201, 1000, 1001, 4001, 5000]))
    dt = float(rng.choice([0.005, 0.01, 0.02]))
    sc = gen.scale(rng)
    arrs = [gen.signal(rng, L) * sc + sc * float(rng.uniform(-2, 2)) for _ in range(3)]
    alpha = float(rng.choice([0.0, 0.1, 0.5]))
    return L, dt, sc, arrs, alpha


def gen_pre_fft(rng):
    """FFT settings of the preprocessing step: the default, an un-padded transform (odd or even with the window), and
    explicit lengths above the default power of two - odd and even."""
    return [None, None, {"n": None}, {"n": None}, {"n": 40001}, {"n": 40000}, {"n": 65536}][int(rng.integers(0, 7))]


def pre_settings(alpha, itf=None, differentiate=False, fft=None):
    import hvsrpy
    return hvsrpy.PsdPreProcessingSettings(orient_to_degrees_from_north=None, filter_corner_frequencies_in_hz=[None, None],
                                           window_length_in_seconds=None, detrend="none",
                                           window_type_and_width=("tukey", alpha), fft_settings=copy.deepcopy(fft),
                                           instrument_transfer_function=itf, differentiate=differentiate)


def fam_differentiate(ctx, rng):
    import hvsrpy
    L, dt, sc, arrs, alpha = gen_pre(rng)
    fft = gen_pre_fft(rng)
    ctx.describe(L=L, dt=dt, alpha=alpha, scale=sc, kind="differentiate", fft_settings=fft)
    rec = gen.make_recording(*[a.copy() for a in arrs], dt)
    st = pre_settings(alpha, differentiate=True, fft=fft)
    out = hvsrpy.preprocess([rec], st)
    ctx.count("preprocess_calls")
    n = st.fft_settings["n"]
    tap = tukey(L, alpha)
    ok, worst = True, 0.0
    for comp, x in zip(("ns", "ew", "vt"), arrs):
        y = (x - np.mean(x)) * tap
        Y = np.fft.fft(y, n)
        kfreq = np.fft.fftfreq(n, dt)
        D = 2j * np.pi * kfreq * Y
        if n % 2 == 0:
            D[n // 2] = 0.0
        d = np.real(np.fft.ifft(D))[:L]
        got = getattr(out[0], comp).amplitude
        e = float(np.max(np.abs(got - d)) / max(np.max(np.abs(d)), 1e-300)) if got.shape == d.shape else np.inf
        worst = max(worst, e)
        ok = ok and e <= 1e-8
    ctx.check(ok and len(out) == 1, "differentiation-analytic", "differentiated series differs from the spectral derivative",
              worst_relative_error=worst, L=L, dt=dt, alpha=alpha, n=n)
    # displacement -> velocity -> acceleration: what the first pass returned is preprocessed again (a new settings
    # object with the same taper, or the same one); the second pass is the spectral derivative of ITS input, mean removed
    # and tapered, whatever the objects' metadata says about earlier steps
    if len(out) == 1 and rng.random() < 0.6:
        first = [np.array(getattr(out[0], comp).amplitude) for comp in ("ns", "ew", "vt")]
        st2 = st if rng.random() < 0.3 else pre_settings(alpha, differentiate=True, fft=copy.deepcopy(st.fft_settings) if rng.random() < 0.5 else fft)
        out2 = hvsrpy.preprocess(out, st2)
        ctx.count("preprocess_calls")
        n2 = st2.fft_settings["n"]
        ok2, worst2 = len(out2) == 1, 0.0
        for comp, x in zip(("ns", "ew", "vt"), first):
            y = (x - np.mean(x)) * tap
            Y = np.fft.fft(y, n2)
            D = 2j * np.pi * np.fft.fftfreq(n2, dt) * Y
            if n2 % 2 == 0:
                D[n2 // 2] = 0.0
            d = np.real(np.fft.ifft(D))[:L]
            got = getattr(out2[0], comp).amplitude if ok2 else np.empty(0)
            e = float(np.max(np.abs(got - d)) / max(np.max(np.abs(d)), 1e-300)) if got.shape == d.shape else np.inf
            worst2 = max(worst2, e)
            ok2 = ok2 and e <= 1e-8
        ctx.check(ok2, "differentiation-analytic", "second pass (the output of a differentiating preprocess preprocessed again) "
                  "differs from the spectral derivative of the mean-removed, tapered series it was given",
                  mechanism="second-pass-on-earlier-output", worst_relative_error=worst2, L=L, dt=dt, alpha=alpha, n=n2,
                  same_settings_object=st2 is st)
        ctx.count("second_passes_judged")
    ctx.nontrivial(["diff", L, dt, alpha, n])
    ctx.state(["diff", "odd-fft-length" if n % 2 else "even-fft-length"])


def H_direct(poles, zeros, f):
    s = 2j * np.pi * np.asarray(f, float)
    num = np.ones_like(s)
    for z in zeros:
        num = num * (s - z)
    den = np.ones_like(s)
    for p in poles:
        den = den * (s - p)
    return num / den


def fam_response(ctx, rng):
    import hvsrpy
    from hvsrpy.instrument_response import InstrumentTransferFunction
    L, dt, sc, arrs, alpha = gen_pre(rng)
    flat = bool(rng.random() < 0.5)
    S = float(10 ** rng.uniform(-2, 6)) * float(rng.choice([1.0, 1.0, -1.0]))     # a reversed-polarity sensor has S < 0
    A0 = float(10 ** rng.uniform(-1, 1)) if rng.random() < 0.5 else 1.0
    if flat:
        poles, zeros = [], []
    else:
        w0 = 2 * np.pi * float(rng.choice([1.0, 4.5, 0.1]))
        h = float(rng.choice([0.5, 0.707, 0.3]))
        poles = [complex(-h * w0, w0 * np.sqrt(1 - h * h)), complex(-h * w0, -w0 * np.sqrt(1 - h * h))]
        zeros = [0j, 0j]
    fft = gen_pre_fft(rng)
    ctx.describe(L=L, dt=dt, alpha=alpha, flat=flat, sensitivity=S, normalization=A0, poles=[str(p) for p in poles], zeros=[str(z) for z in zeros],
                 fft_settings=fft)
    if rng.random() < 0.35:
        # the transfer-function object has a past: it described another sensor, was used (response curve drawn, a record
        # corrected), and was then re-described through its public attributes - what counts is the current description
        w1 = 2 * np.pi * float(rng.choice([2.0, 10.0, 0.5]))
        itf = InstrumentTransferFunction([complex(-0.6 * w1, 0.8 * w1), complex(-0.6 * w1, -0.8 * w1)] + ([complex(-5 * w1, 0)] if rng.random() < 0.5 else []),
                                         [0j, 0j] if rng.random() < 0.7 else [0j], float(10 ** rng.uniform(0, 3)), 1.0)
        itf.response(np.geomspace(0.1, 50, 16))
        if rng.random() < 0.5:
            hvsrpy.preprocess([gen.make_recording(*[a.copy() for a in arrs], dt)], pre_settings(alpha, itf=itf, differentiate=False, fft=gen_pre_fft(rng)))
        itf.poles = [complex(p) for p in poles]
        itf.zeros = [complex(z) for z in zeros]
        itf.instrument_sensitivity = S
        itf.normalization_factor = A0
        ctx.count("transfer_functions_re_described_after_use")
    else:
        itf = InstrumentTransferFunction(poles, zeros, S, A0)
    rec = gen.make_recording(*[a.copy() for a in arrs], dt)
    both = bool(rng.random() < 0.4)       # response removal AND differentiation in one call (one detrend, one taper)
    st = pre_settings(alpha, itf=itf, differentiate=both, fft=fft)
    out = hvsrpy.preprocess([rec], st)
    ctx.count("preprocess_calls")
    n = st.fft_settings["n"]
    tap = tukey(L, alpha)
    ok, worst = True, 0.0
    for comp, x in zip(("ns", "ew", "vt"), arrs):
        y = (x - np.mean(x)) * tap
        if flat:
            want = y / (S * A0) - np.sum(y) / (S * A0 * n)
        else:
            f = np.fft.rfftfreq(n, dt)
            Hf = H_direct(poles, zeros, f) * S * A0
            Y = np.fft.rfft(y, n)
            inv = np.zeros_like(Hf)
            nz = np.abs(Hf) > 0
            inv[nz] = 1.0 / Hf[nz]
            inv[0] = 0.0
            want = np.fft.irfft(Y * inv, n)[:L]
        if both:
            W = np.fft.fft(want, n)
            D = 2j * np.pi * np.fft.fftfreq(n, dt) * W
            if n % 2 == 0:
                D[n // 2] = 0.0
            want = np.real(np.fft.ifft(D))[:L]
        got = getattr(out[0], comp).amplitude
        e = float(np.max(np.abs(got - want)) / max(np.max(np.abs(want)), 1e-300)) if got.shape == want.shape else np.inf
        worst = max(worst, e)
        ok = ok and e <= 1e-8
    if both:
        ctx.check(ok, "response-then-differentiation-analytic", "series after response removal and differentiation differs from "
                  "the spectral derivative of the response-corrected, once-tapered series", worst_relative_error=worst, L=L, dt=dt,
                  alpha=alpha, n=n, flat=flat)
        ctx.nontrivial(["resp+diff", flat, L, dt, alpha, n])
        ctx.state(["resp+diff", "odd-fft-length" if n % 2 else "even-fft-length"])
        return
    ctx.check(ok, "flat-response-analytic" if flat else "pole-zero-response-analytic",
              "series after instrument-response removal differs from the analytic expectation",
              worst_relative_error=worst, L=L, dt=dt, alpha=alpha, n=n, sensitivity=S, normalization=A0)
    ctx.nontrivial(["resp", flat, L, dt, alpha, n])
    ctx.state(["resp", "odd-fft-length" if n % 2 else "even-fft-length"])


def fam_same_windows_reused(ctx, rng):
    """The SAME recording objects are processed several times (PSD, PSD again, diffuse field 'from the same windows',
    single-window Welch runs): every call must describe the samples the objects hold."""
    pick_spelling(ctx, rng)
    import hvsrpy
    wins, k, L, sc = gen_windows(rng, k=int(rng.choice([1, 2, 4])), L=int(rng.choice([101, 500, 4096])))
    dt = float(DTS[int(rng.integers(0, len(DTS)))])
    alpha = float(rng.choice([0.05, 0.1, 0.5, 1.0]))
    info = dict(k=k, L=L, dt=dt, alpha=alpha)
    ctx.describe(**info, kind="same objects reused")
    recs = [gen.make_recording(w[0], w[1], w[2], dt) for w in wins]
    tap = tukey(L, alpha)
    U = np.mean(tap ** 2)
    alt = (-1.0) ** np.arange(L)
    ok, worst, ncalls = True, 0.0, int(rng.integers(2, 4))
    n = None
    for call in range(ncalls):
        st = psd_settings(alpha, n, None)
        with np.errstate(all="ignore"):
            out = hvsrpy.process(recs, st)
        n = st.fft_settings["n"]
        ctx.count("process_calls")
        df = (1.0 / dt) / n
        for ci, comp in enumerate(("ns", "ew", "vt")):
            lhs = float(np.sum(out[comp].amplitude[1:n // 2]) * df)
            rhs = float(np.mean([(np.mean((tap * w[ci]) ** 2) - (np.sum(tap * w[ci]) ** 2 + np.sum(alt * tap * w[ci]) ** 2) / (n * L)) / U for w in wins]))
            tot = float(np.mean([np.mean((tap * w[ci]) ** 2) for w in wins]) / U)
            e = abs(lhs - rhs) / max(tot, 1e-300)
            worst = max(worst, e)
            ok = ok and e <= 1e-9
    ctx.check(ok, "parseval", f"the PSD of call 1..{ncalls} on the same recording objects does not account for the mean square of "
              "the tapered samples those objects were created with", worst_relative_error=worst, calls=ncalls, **info)
    # diffuse field from the same objects == expression from the PSDs of fresh copies of the same samples
    op = "konno_and_ohmachi"
    fcs = np.geomspace(0.02 / dt / 10, 0.4 / dt, 12)
    sm = dict(operator=op, bandwidth=40.0, center_frequencies_in_hz=fcs)
    raw, n2 = run_psd(ctx, wins, dt, alpha, n)
    f = np.fft.rfftfreq(n2, dt)
    res2 = SM.smooth(op, f, np.vstack([raw["ns"].amplitude + raw["ew"].amplitude, raw["vt"].amplitude]), fcs, 40.0)
    st = hvsrpy.HvsrDiffuseFieldProcessingSettings(window_type_and_width=("tukey", alpha), smoothing=dict(sm), fft_settings=dict(n=int(n2)))
    try:
        with np.errstate(all="ignore"):
            dfh = hvsrpy.process(recs, st)
    except ValueError:
        ctx.count("process_refused")
        return
    cols = [j for j in range(fcs.size) if j not in res2.alts and j not in res2.unbounded and not res2.empty[j] and res2.base[1, j] > 0]
    with np.errstate(all="ignore"):
        want = np.sqrt(res2.base[0] / res2.base[1])
    got = np.asarray(dfh.amplitude)
    ctx.check(close(got[cols], want[cols], rtol=1e-9), "diffuse-field-from-psds", "diffuse-field HVSR of recording objects that were "
              "processed before differs from sqrt(S(Pns+Pew)/S(Pvt)) of the same samples", maxrel=maxrel(got[cols], want[cols]), **info)
    ctx.nontrivial(["reused", k, L, dt, alpha, ncalls])


FAMILIES = [("same-windows-reused", fam_same_windows_reused), ("parseval-scaling-welch", fam_parseval), ("diffuse-field-and-smoothed-psd", fam_diffuse),
            ("differentiate", fam_differentiate), ("instrument-response", fam_response)]
