"""C10 - preprocessing applies the documented steps in order; windows tile the record.

Probes: TimeSeries.split / SeismicRecording3C.split (direct), hvsrpy.preprocess, and method probes on
SeismicRecording3C.orient_sensor_to / butterworth_filter / split / detrend whose *event order inside
one preprocess call* is checked offline (orient < filter < split < detrend x windows).
Oracles: the tiling rule stated by the property (value based, bit-exact samples) and a model pipeline
detrend(split(sosfiltfilt(butter(5), rotate(record)))) built from scipy primitives.
"""

import numpy as np
from scipy.signal import butter, detrend, sosfiltfilt

from .. import gen, probe
from ..ctx import biteq

PROPERTY = "C10"
NUM = 10
RULE = ("split cases = (sampling rate from {10,20,40,50,75,100,125,128,150,200,250,300,500,1000} Hz with dt=1/fs as a "
        "double, record length 2..40000 samples, window length: exact multiple of dt / non-multiple / equal to the record / "
        "one sample longer or shorter / longer than the record); preprocess cases = 1-4 recordings x orientation x filter "
        "corners (none, high-, low-, band-pass) x detrend mode x window length, signals with a strong trend and "
        "low-frequency content; non-trivial = >= 2 windows or an expected refusal; distinct = (fs, n, window length, "
        "filter, detrend, orientation) signatures")
ASSUMPTIONS = [
    "k = the integer nearest to L/dt when the ratio is within 1e-6 of an integer, else floor(L/dt)",
    "when the record holds exactly W*k samples either W windows (the last one sample short) or W-1 full windows are admissible",
    "scipy.signal.butter/sosfiltfilt/detrend are trusted primitives: the order of the steps and the windowing are under test, not scipy",
]
NOT_REACHED = ["window lengths shorter than two sample intervals", "records longer than 40000 samples"]
BUDGET = {"quick": dict(cases=6000, seconds=60, shards=4),
          "thorough": dict(cases=400000, seconds=600, shards=16)}
REQUIRED = ["mon:tiling", "mon:window-samples-unaltered", "mon:too-long-window-refused", "mon:components-split-identically",
            "mon:step-order", "mon:windows-match-model-pipeline", "mon:second-pass-windows-match-model", "method_events"]

FS = [10, 20, 40, 50, 75, 100, 125, 128, 150, 200, 250, 300, 500, 1000]
EVENTS = []


def setup(ctx):
    import hvsrpy
    cls = hvsrpy.SeismicRecording3C
    for name in ("orient_sensor_to", "butterworth_filter", "split", "detrend"):
        def on_call(nm, args, kwargs):
            EVENTS.append((nm.split(".")[-1], id(args[0])))
        probe.probe_method(cls, name, on_call=on_call)


def expected_k(L, dt):
    r = L / dt
    if abs(r - round(r)) < 1e-6:
        return int(round(r))
    return int(np.floor(r))


def judge_tiling(ctx, x, dt, L, windows, err, label, info):
    """x: source samples; windows: list of arrays (or None when the call raised)."""
    n = x.size
    k = expected_k(L, dt)
    if k < 1:
        return None
    if windows is None:
        ctx.check(n <= k, "too-long-window-refused" if n < k else "tiling",
                  f"{label}: refused although the record ({n} samples) holds at least one full window (k={k})",
                  error=repr(err), **info)
        return k
    if n < k:
        ctx.check(False, "too-long-window-refused", f"{label}: a window of {k} intervals accepted for a record of {n} samples", **info)
        return k
    W = len(windows)
    problems = []
    if W < 1:
        problems.append("no window returned")
    for j, w in enumerate(windows):
        s = j * k
        full = x[s:s + k + 1]
        if w.size == k + 1 and s + k + 1 <= n:
            if not biteq(np.asarray(w), full):
                problems.append(f"window {j} does not carry samples [{s}:{s + k + 1}] unaltered")
        elif w.size == k and j == W - 1 and s + k == n:
            if not biteq(np.asarray(w), x[s:s + k]):
                problems.append(f"last window {j} does not carry samples [{s}:{n}] unaltered")
        else:
            problems.append(f"window {j} has {w.size} samples (k={k}, start {s}, record {n})")
        if len(problems) > 3:
            break
    if W >= 1 and not problems:
        end = (W - 1) * k + windows[-1].size - 1          # index of the last sample used
        tail = n - 1 - end
        if tail >= k:
            problems.append(f"discarded tail of {tail} samples is not shorter than one window (k={k})")
    ctx.check(not problems, "tiling", f"{label}: {problems[0] if problems else ''}", problems=problems[:4], k=k,
              n_windows=W, sizes=[int(w.size) for w in windows[:3]] + [int(windows[-1].size)] if W else [], **info)
    ctx.check(not any("unaltered" in p for p in problems), "window-samples-unaltered", f"{label}: window samples altered", **info)
    return k


def gen_split_case(rng):
    fs = int(FS[int(rng.integers(0, len(FS)))])
    dt = 1.0 / fs
    if rng.random() < 0.2:
        # a sampling rate that is not a whole number of hertz (83.33, 33.33, 62.5 Hz; a clock-corrected 99.98 Hz)
        dt = float(rng.choice([0.012, 0.03, 0.016, 0.010002000400080016, 0.007, 0.0123]))
        fs = 1.0 / dt
    n = int(rng.choice([2, 3, 10, 57, 100, 601, 1000, 2000, 4097, 12000, 40000]))
    cls = str(rng.choice(["multiple", "multiple", "non-multiple", "record", "record+1", "record-1", "too-long", "random"]))
    if cls == "multiple":
        kk = int(rng.integers(2, max(3, n)))
        L = kk / fs if rng.random() < 0.5 else float(rng.choice([0.5, 1, 2, 3, 5, 10, 30, 60]))
    elif cls == "non-multiple":
        L = (int(rng.integers(2, max(3, n))) + float(rng.uniform(0.1, 0.9))) * dt
    elif cls == "record":
        L = (n - 1) * dt
    elif cls == "record+1":
        L = n * dt
    elif cls == "record-1":
        L = max(2, n - 2) * dt
    elif cls == "too-long":
        L = (n + int(rng.integers(1, 50))) * dt
    else:
        L = float(rng.uniform(2 * dt, n * dt * 1.2))
    return fs, dt, n, float(L), cls


def fam_split_timeseries(ctx, rng):
    import hvsrpy
    fs, dt, n, L, cls = gen_split_case(rng)
    x = gen.as_stored(np.arange(n, dtype=float) * 1.5 + rng.standard_normal(n))
    info = dict(fs=fs, n=n, window_length=L, ratio=L / dt, length_class=cls)
    ctx.describe(**info)
    ts = hvsrpy.TimeSeries(x, dt)
    try:
        wins = ts.split(L)
        arrs, err = [w.amplitude for w in wins], None
        ctx.check(all(w.dt_in_seconds == dt for w in wins), "window-keeps-time-step", "a window has a different time step", **info)
    except Exception as e:
        arrs, err = None, e
    ctx.count("split_calls")
    k = judge_tiling(ctx, x, dt, L, arrs, err, "TimeSeries.split", info)
    if k and (arrs is None or len(arrs) >= 2):
        ctx.nontrivial(["ts", fs, n, round(L, 9)])
    ctx.state([fs, cls, arrs is None])


def fam_split_recording(ctx, rng):
    fs, dt, n, L, cls = gen_split_case(rng)
    comps = gen.as_stored([np.arange(n, dtype=float) * c + rng.standard_normal(n) for c in (1.0, -2.0, 0.5)])
    info = dict(fs=fs, n=n, window_length=L, ratio=L / dt, length_class=cls)
    ctx.describe(**info)
    rec = gen.make_recording(comps[0], comps[1], comps[2], dt, degrees_from_north=30.0, meta={"tag": 1})
    # the record may have been detrended as a whole before it is cut (its windows are then detrended again, each by itself)
    pre = str(rng.choice(["none", "none", "linear", "constant"]))
    if pre != "none":
        rec.detrend(type=pre)
        comps = [np.array(rec.ns.amplitude), np.array(rec.ew.amplitude), np.array(rec.vt.amplitude)]
    info["detrended_before_split"] = pre
    try:
        wins = rec.split(L)
        err = None
    except Exception as e:
        wins, err = None, e
    ctx.count("split_calls")
    ks = []
    for name, x in zip(("ns", "ew", "vt"), comps):
        arrs = None if wins is None else [getattr(w, name).amplitude for w in wins]
        ks.append(judge_tiling(ctx, x, dt, L, arrs, err, f"SeismicRecording3C.split[{name}]", info))
    if wins is not None:
        same = all(w.ns.n_samples == w.ew.n_samples == w.vt.n_samples for w in wins)
        ctx.check(same and all(w.degrees_from_north == rec.degrees_from_north for w in wins), "components-split-identically",
                  "components of a window differ in length / orientation not carried over", **info)
        if len(wins) >= 2:
            ctx.nontrivial(["rec", fs, n, round(L, 9)])
        if rng.random() < 0.6:
            # ... "and only then detrending each window separately": the windows detrended one by one through the public
            # method, whatever was done to the whole record before
            ty = pre if (pre != "none" and rng.random() < 0.7) else str(rng.choice(["linear", "constant"]))
            worst = 0.0
            for w in wins[:40]:
                refs = {c: detrend(np.array(getattr(w, c).amplitude, dtype=float), type=ty) for c in ("ns", "ew", "vt")}
                scale = max(float(np.max(np.abs(getattr(w, c).amplitude))) for c in ("ns", "ew", "vt")) + 1e-300
                w.detrend(type=ty)
                for c in ("ns", "ew", "vt"):
                    worst = max(worst, float(np.max(np.abs(np.asarray(getattr(w, c).amplitude) - refs[c]))) / scale)
            ctx.check(worst <= 1e-9, "windows-detrended-separately", f"a window detrended by itself ({ty}) after the split does not "
                      "equal its separately detrended samples", worst_relative_deviation=worst, detrend_type=ty, **info)
    elif ks[0]:
        ctx.nontrivial(["rec-refused", fs, n, round(L, 9)])


def model_pipeline(arrs, dt, cur, target, corners, L, det):
    ns, ew, vt = (np.asarray(a, dtype=float) for a in arrs)
    if target is not None:
        phi = np.radians(target - cur)
        ns, ew = ns * np.cos(phi) + ew * np.sin(phi), ew * np.cos(phi) - ns * np.sin(phi)
    lo, hi = corners
    if lo is not None or hi is not None:
        if lo is not None and hi is not None:
            sos = butter(5, [lo, hi], "bandpass", fs=1 / dt, output="sos")
        elif lo is not None:
            sos = butter(5, lo, "highpass", fs=1 / dt, output="sos")
        else:
            sos = butter(5, hi, "lowpass", fs=1 / dt, output="sos")
        ns, ew, vt = (sosfiltfilt(sos, c) for c in (ns, ew, vt))
    n = ns.size
    if L is None:
        bounds = [(0, n)]
    else:
        k = expected_k(L, dt)
        W = n // k
        bounds = [(j * k, min(j * k + k + 1, n)) for j in range(W)]
    out = []
    for s, e in bounds:
        w = [c[s:e] for c in (ns, ew, vt)]
        if det not in (None, "none"):
            w = [detrend(c, type=det) for c in w]
        out.append(w)
    return out


def fam_preprocess(ctx, rng):
    import hvsrpy
    fs = int(rng.choice([50, 75, 100, 128, 150, 200, 300]))
    dt = 1.0 / fs
    nrec = int(rng.choice([1, 1, 2, 4]))
    corners = [(None, None), (0.2, None), (None, fs / 5), (0.3, fs / 4)][int(rng.integers(0, 4))]
    det = [None, "none", "linear", "constant"][int(rng.integers(0, 4))]
    target = None if rng.random() < 0.2 else float(rng.choice([0.0, 90.0, 33.0, float(rng.uniform(-360, 720))]))
    L = None if rng.random() < 0.15 else float(rng.choice([1.0, 2.0, 3.0, 5.0, 7.5, 10.0]))
    items = []
    _, long_record = gen.maybe_large(rng, ctx, 0, [1], p_quick=0.006, p_thorough=0.006)        # hours of data, slow filter corners
    if long_record:
        nrec = 1
        corners = [(0.05 * fs / 100, fs / 4), (0.1 * fs / 100, None), (0.3, fs / 4)][int(rng.integers(0, 3))]
        L = float(rng.choice([300.0, 600.0]))
    for _ in range(nrec):
        n = int(rng.choice([600, 2000, 4501, 9000])) if not long_record else int(rng.choice([1_100_000, 1_300_001]))
        t = np.arange(n) * dt
        arrs = [gen.signal(rng, n) + rng.uniform(2, 20) * t / t[-1] * rng.choice([-1, 1]) + 3 * np.sin(2 * np.pi * 0.05 * t + rng.uniform(0, 6))
                + rng.uniform(-5, 5) for _ in range(3)]
        if rng.random() < 0.3:
            # raw counts on a large offset (an un-detrended digitiser output)
            off = float(rng.choice([3.0e4, 4.0e6]))
            arrs = [np.round(a * 40.0) + off for a in arrs]
        arrs = gen.as_stored(arrs)
        items.append((arrs, float(rng.uniform(0, 360))))
    info = dict(fs=fs, lengths=[int(a[0][0].size) for a in items], corners=list(corners), detrend=det, target=target, window_length=L)
    ctx.describe(**info)
    recs = [gen.make_recording(a[0].copy(), a[1].copy(), a[2].copy(), dt, degrees_from_north=cur) for a, cur in items]
    st = hvsrpy.HvsrPreProcessingSettings(orient_to_degrees_from_north=target, filter_corner_frequencies_in_hz=list(corners),
                                          window_length_in_seconds=L, detrend=det)
    del EVENTS[:]
    arg = recs[0] if nrec == 1 and rng.random() < 0.5 else recs
    ctx.count("preprocess_calls")
    must_refuse = L is not None and any(a[0][0].size < expected_k(L, dt) for a in items)
    may_refuse = L is not None and any(a[0][0].size <= expected_k(L, dt) for a in items)
    try:
        wins = hvsrpy.preprocess(arg, st)
    except ValueError as e:
        ctx.check(may_refuse, "too-long-window-refused", f"preprocess refused: {e!r}", **info)
        if must_refuse:
            ctx.nontrivial(["pre-refused", fs, info["lengths"], L])
        return
    if must_refuse:
        ctx.check(False, "too-long-window-refused", "preprocess accepted a window longer than a record", **info)
        return
    ev = list(EVENTS)
    ctx.count("method_events", len(ev))
    # -- offline order check over the method events ---------------------------------------------
    ok_order = True
    why = ""
    rec_ids = [id(r) for r in recs]
    win_ids = {id(w) for w in wins}
    for rid in rec_ids:
        seq = [nm for nm, i in ev if i == rid]
        want = (["orient_sensor_to"] if target is not None else []) + ["butterworth_filter"] + (["split"] if L is not None else [])
        if L is None and det not in (None, "none"):
            want = want + ["detrend"]
        if seq != want:
            ok_order, why = False, f"record events {seq}, expected {want}"
    if L is not None:
        det_ids = [i for nm, i in ev if nm == "detrend"]
        if det not in (None, "none"):
            if sorted(det_ids) != sorted(win_ids) or any(i in rec_ids for i in det_ids):
                ok_order, why = False, "detrend was not applied once to every window (and only to windows)"
            # every detrend event comes after the split that produced the windows of that record
        elif det_ids:
            ok_order, why = False, "detrend applied although disabled"
    ctx.check(ok_order, "step-order", f"preprocess step order: {why}", events=[e[0] for e in ev][:12], **info)
    # -- model pipeline ---------------------------------------------------------------------------
    want = []
    for (arrs, cur) in items:
        want.extend(model_pipeline(arrs, dt, cur, target, corners, L, det))
    scale = max(float(np.max(np.abs(a))) for arrs, _ in items for a in arrs)
    ok = len(wins) == len(want)
    worst = 0.0
    if ok:
        for w, m in zip(wins, want):
            for name, mm in zip(("ns", "ew", "vt"), m):
                a = getattr(w, name).amplitude
                if a.shape != mm.shape:
                    ok = False
                    break
                worst = max(worst, float(np.max(np.abs(a - mm))) / scale)
        ok = ok and worst <= 1e-9
    ctx.check(ok, "windows-match-model-pipeline", "windows differ from detrend(split(filter(orient(record))))",
              n_windows=len(wins), expected_windows=len(want), worst_relative_error=worst, **info)
    # -- a second preprocessing pass over the SAME recording objects (they were oriented and filtered in place by the
    #    first pass): the windows must be those of the record as it now is, re-oriented from where it now points
    if rng.random() < 0.4:
        corners2 = [(None, None), (0.2, None), (None, fs / 5)][int(rng.integers(0, 3))]
        det2 = ["none", "linear", "constant"][int(rng.integers(0, 3))]
        target2 = float(rng.choice([0.0, 30.0, 200.0, float(rng.uniform(-360, 720))]))
        L2 = float(rng.choice([1.0, 2.0, 4.0]))
        state = []
        for (arrs, cur) in items:
            # the record after pass 1: oriented and filtered in place; when no window length was given the "window"
            # that was detrended is the record itself
            full = model_pipeline(arrs, dt, cur, target, corners, None, det if L is None else None)[0]
            state.append((full, cur if target is None else target))
        st2 = hvsrpy.HvsrPreProcessingSettings(orient_to_degrees_from_north=target2, filter_corner_frequencies_in_hz=list(corners2),
                                               window_length_in_seconds=L2, detrend=det2)
        info2 = dict(fs=fs, first_pass=dict(target=target, corners=list(corners)), second_pass=dict(target=target2, corners=list(corners2), detrend=det2, window_length=L2))
        try:
            wins2 = hvsrpy.preprocess(recs, st2)
        except ValueError:
            wins2 = None
        if wins2 is not None:
            want2 = []
            for full, cur2 in state:
                want2.extend(model_pipeline(full, dt, cur2, target2, corners2, L2, det2))
            ok2 = len(wins2) == len(want2)
            worst2 = 0.0
            if ok2:
                for w, m in zip(wins2, want2):
                    for name, mm in zip(("ns", "ew", "vt"), m):
                        a = getattr(w, name).amplitude
                        if a.shape != mm.shape:
                            ok2 = False
                            break
                        worst2 = max(worst2, float(np.max(np.abs(a - mm))) / scale)
                ok2 = ok2 and worst2 <= 1e-8
            ctx.check(ok2, "second-pass-windows-match-model", "preprocessing the same recordings a second time does not give the "
                      "windows of the (already oriented and filtered) records re-oriented to the new target",
                      worst_relative_error=worst2, n_windows=len(wins2), expected_windows=len(want2), **info2)
            ctx.nontrivial(["pre-twice", fs, target, target2, list(corners2), det2, L2])
    if len(wins) >= 2:
        ctx.nontrivial(["pre", fs, info["lengths"], list(corners), det, target, L])
    ctx.state([corners[0] is not None, corners[1] is not None, det, target is None, L])


FAMILIES = [("timeseries-split", fam_split_timeseries), ("recording-split", fam_split_recording),
            ("timeseries-split-2", fam_split_timeseries), ("preprocess-order", fam_preprocess)]
