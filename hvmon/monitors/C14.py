"""C14 - spatial weights are nearest-sensor area fractions; Monte-Carlo fn uses them.

Probes: HvsrSpatial.spatial_weights / bounded_voronoi, montecarlo_fn, _statistics at their boundary.
Oracles: models/voronoi.py (half-plane clipping of the boundary hull, own code), invariance under
permutation / translation / scaling on the real code, and for the Monte-Carlo statistics the weighted
mean / Cheng-type weighted std re-derived from the *returned* realisations, reproducibility, weight
scale invariance and the zero-spread closed form.
"""

import os
import numpy as np

from ..ctx import biteq, close, maxrel
from .. import gen
from ..models import voronoi as MV

PROPERTY = "C14"
NUM = 14
RULE = ("layout cases = 4-60 sensors (uniform, clustered, near-collinear, regular grid with/without jitter, some outside the "
        "boundary) x boundary point sets whose hull is a triangle..dodecagon (extra interior points included) x offsets up to "
        "1e4 x extent x scale 1e-2..1e3 x permutation; Monte-Carlo cases = 1-30 generators, four distribution pairs, 1-2000 "
        "realisations, seeds, weight scale factors, zero standard deviations; non-trivial = >= 5 retained sensors with unequal "
        "weights / >= 2 generators with unequal weights; distinct = (layout class, n, hull size, offset, scale) resp. "
        "(n generators, distributions, n realisations, seed) signatures")
ASSUMPTIONS = [
    "sensors within 1e-9 x extent of the boundary hull are ambiguous (retained or dropped)",
    "coordinates are relative (magnitude <= 1e4 x array extent, boundary extent <= 1e5): hvsrpy closes unbounded cells with far points at a fixed radius of 1e6",
    "weights compared at 1e-8 + 50*eps*1e6/extent (fixed far-point radius) + 64*eps*M^2/(d_min*extent) (conditioning of circumcentres for coordinate magnitude M and smallest sensor separation d_min; layouts with eps*M^2/d_min^2 > 1e-2 are not resolvable in double precision and are skipped); invariances at 1e-7 + 4x that",
]
NOT_REACHED = ["fewer than four sensors inside the boundary", "coordinates beyond 1e4 x the array extent"]
BUDGET = {"quick": dict(cases=2000, seconds=60, shards=4),
          "thorough": dict(cases=160000, seconds=600, shards=16)}
REQUIRED = ["mon:reused-object-equals-fresh-object", "mon:weights-equal-area-fractions", "mon:weights-nonnegative-sum-to-one", "mon:retained-indices",
            "mon:permutation-translation-scaling-invariant", "mon:montecarlo-weighted-statistics",
            "mon:montecarlo-reproducible", "mon:montecarlo-weight-scale-invariant", "mon:montecarlo-zero-spread-closed-form"]


def degenerate_retained(pts, idx):
    """The retained sensors lie on one line (to 1e-5 of their extent): the Voronoi cells are strips, the area fractions
    are defined - but scipy's Qhull cannot tessellate such a set, and HvsrSpatial hands its error on."""
    q = np.asarray(pts, float)[list(idx)]
    if len(q) < 3:
        return True
    sv = np.linalg.svd(q - q.mean(axis=0), compute_uv=False)
    return bool(sv[1] <= 1e-5 * max(sv[0], 1e-300))


def closing_radius_mechanism(*retained_sets):
    """hvsrpy closes an unbounded Voronoi cell with far points at a FIXED distance of 1e6 from the cell's finite vertex.  The
    cell of an outer sensor of a thin (nearly collinear) array is almost a half-plane: its two rays leave the one finite vertex
    in nearly opposite directions, and the polygon (vertex, far point, far point) is a sliver whose depth is only
    1e6 x (half the angle between the rays).  When that depth is less than the reach of the site beyond the sensor, part of
    the cell is cut off - whether it is depends on the scale of the coordinates.  Names that mechanism in a witness
    (known_findings.json lists it) for arrays whose retained sensors lie within 2 % of a straight line; 'other' otherwise."""
    for q in retained_sets:
        q = np.asarray(q, float)
        if len(q) >= 3:
            sv = np.linalg.svd(q - q.mean(axis=0), compute_uv=False)
            if sv[1] <= 0.02 * max(sv[0], 1e-300):
                return "thin-array-outer-cells-closed-at-a-fixed-distance"
    return "other"


def resolvable(pts, idx, boundary):
    """Delaunay / Voronoi codes work with the lifted coordinate x^2+y^2, one ulp of which is eps*M^2 for coordinate
    magnitude M.  When that is no longer small against d^2 (d = smallest separation of two retained sensors) the bisector
    between the two closest sensors is not determined by the input in double precision: such layouts (separation over
    coordinate magnitude below about 1e-7) are outside what any implementation can resolve, and are not judged."""
    q = np.asarray(pts, float)[list(idx)]
    M = float(max(np.max(np.abs(np.asarray(boundary, float))), np.max(np.abs(q))))
    dmin = min(float(np.min(np.hypot(*(q[i] - np.delete(q, i, axis=0)).T))) for i in range(len(q)))
    return 2.2e-16 * M * M / max(dmin * dmin, 1e-300) <= 1e-2


def error_info(e, pts, idx):
    """Witness fields naming the mechanism of a raised error (known_findings.json lists the collinear case)."""
    if type(e).__name__ == "QhullError" and degenerate_retained(pts, idx):
        return dict(mechanism="all-retained-sensors-on-one-line", exception="QhullError")
    return dict(mechanism="other", exception=type(e).__name__)


def gen_boundary(rng):
    k = int(rng.integers(3, 13))
    if rng.random() < 0.06:
        # a densely digitised outline (traced from a site map): hundreds of points on a rounded curve
        k = int(rng.choice([120, 250, 400]))
        ang = np.linspace(0, 2 * np.pi, k, endpoint=False) + rng.uniform(0, 1)
        pts = np.c_[np.cos(ang), np.sin(ang)] * np.array([1.0, float(rng.uniform(0.5, 1.5))])
        return pts[rng.permutation(k)], k
    ang = np.sort(rng.uniform(0, 2 * np.pi, k))
    if np.max(np.diff(np.concatenate([ang, [ang[0] + 2 * np.pi]]))) > 2.6:      # avoid slivers
        ang = np.linspace(0, 2 * np.pi, k, endpoint=False) + rng.uniform(0, 1)
    r = rng.uniform(0.8, 1.2, k)
    pts = np.c_[r * np.cos(ang), r * np.sin(ang)] * np.array([1.0, float(rng.uniform(0.5, 1.5))])
    extra = rng.uniform(-0.3, 0.3, (int(rng.integers(0, 4)), 2))
    b = np.vstack([pts, extra])
    return b[rng.permutation(len(b))], k


def gen_sensors(rng, boundary):
    n = int(rng.integers(4, 61))
    cls = str(rng.choice(["uniform", "clustered", "near-collinear", "grid", "grid-jitter", "with-outside", "right-angled", "right-angled"]))
    hull = MV.convex_hull(boundary)
    c = hull.mean(axis=0)
    if cls == "right-angled":
        # arrays laid out along two perpendicular lines / inside a right-angled triangle: two sensors are the extremes in
        # both x and y, one side of the sensors' hull is a diagonal of their bounding box, a corner of the box is empty
        n = int(rng.integers(4, 16))
        a, b = float(rng.uniform(0.25, 0.5)), float(rng.uniform(0.25, 0.5))
        sx, sy = float(rng.choice([-1, 1])), float(rng.choice([-1, 1]))
        pts = [[0.0, 0.0], [a, 0.0], [0.0, b]]
        while len(pts) < n:
            u, v = rng.uniform(0.02, 0.98, 2)
            if u + v < 0.95:                               # strictly inside the triangle, off its hypotenuse
                pts.append([a * u, b * v] if rng.random() < 0.6 else ([a * u, 0.0] if rng.random() < 0.5 else [0.0, b * v]))
        p = c + (np.array(pts) - [a / 3, b / 3]) * [sx, sy] + rng.normal(0, 1e-6, (n, 2)) * (rng.random() < 0.5)
        return p, cls
    if cls in ("uniform", "with-outside"):
        p = c + rng.uniform(-0.55, 0.55, (n, 2))
        if cls == "with-outside":
            p[: max(1, n // 5)] = c + rng.uniform(1.6, 3.0, (max(1, n // 5), 2)) * rng.choice([-1, 1], (max(1, n // 5), 2))
    elif cls == "clustered":
        cent = c + rng.uniform(-0.4, 0.4, (3, 2))
        p = cent[rng.integers(0, 3, n)] + rng.normal(0, 0.05, (n, 2))
    elif cls == "near-collinear":
        t = np.sort(rng.uniform(-0.5, 0.5, n))
        p = c + np.c_[t, 0.3 * t + rng.normal(0, 0.02, n)]
    else:
        m = int(np.ceil(np.sqrt(n)))
        gx, gy = np.meshgrid(np.linspace(-0.45, 0.45, m), np.linspace(-0.45, 0.45, m))
        p = c + np.c_[gx.ravel(), gy.ravel()][:n]
        if cls == "grid-jitter":
            p = p + rng.normal(0, 0.01, p.shape)
        else:
            p = p + rng.normal(0, 1e-4, p.shape)      # exactly co-circular grids are degenerate for Qhull and the model alike
    return p, cls


def fam_layout(ctx, rng):
    import hvsrpy
    boundary, hk = gen_boundary(rng)
    pts, cls = gen_sensors(rng, boundary)
    if gen.every_nth(ctx, 0.004):
        # a linear profile: every sensor on one line through the site (its cells are strips)
        c = MV.convex_hull(boundary).mean(axis=0)
        t = np.sort(rng.uniform(-0.4, 0.4, int(rng.integers(4, 9))))
        ang = float(rng.choice([0.0, np.pi / 2, float(rng.uniform(0, np.pi))]))
        pts, cls = c + np.c_[t * np.cos(ang), t * np.sin(ang)], "linear-profile"
        ctx.count("linear_profiles")
    offset = rng.uniform(-1, 1, 2) * float(rng.choice([0.0, 1.0, 1e2, 1e4]))
    scale = float(rng.choice([1e-2, 1.0, 10.0, 1e3]))
    B = (boundary + offset) * scale
    P = (pts + offset) * scale
    if ctx._idx is not None and ctx._idx >= 0 and ctx._idx % 250 == 41:
        # the thin five-sensor array (sensor spacing ~ 0.4-1.7 km, 0.5 % off a straight line) on which the thorough sweep
        # found weights that do not sum to one (see known_findings.json): kept as a fixed witness
        import json
        with open(os.path.join(os.path.dirname(os.path.dirname(os.path.abspath(__file__))), "data", "c14_thin_array_witness.json")) as fh:
            wit = json.load(fh)
        P = np.array([[float.fromhex(v) for v in row] for row in wit["sensors"]])
        B = np.array([[float.fromhex(v) for v in row] for row in wit["boundary"]])
        cls, offset, scale = "thin-array-witness", np.zeros(2), 1.0
        ctx.count("thin_array_witness_cases")
    info = dict(layout=cls, n=int(len(P)), hull_vertices=hk, offset=offset.tolist(), scale=scale)
    ctx.describe(**info, sensors=P[:6], boundary=B[:6])
    want, idx, amb = MV.weights(P, B)
    if amb or len(idx) < 4:
        ctx.count("ambiguous_skipped" if amb else "fewer_than_four_inside")
        return
    if not resolvable(P, idx, B):
        ctx.count("layouts_not_resolvable_in_double_precision_skipped")
        return
    try:
        Pa, Ba = (P.tolist(), B.tolist()) if rng.random() < 0.3 else (P, B)      # nested lists or arrays
        if rng.random() < 0.3:
            # other array forms of the same values: Fortran order, read-only, rows of a larger table, big-endian,
            # a transposed view, a list of row arrays (what np.loadtxt(..., unpack=True).T or a CSV reader hands over)
            Pa, form_p = gen.reform(rng, P)
            Ba, form_b = gen.reform(rng, B)
            info["forms"] = [form_p, form_b]
            ctx.count("calls_with_arguments_in_other_forms")
        w, ind = hvsrpy.HvsrSpatial(Pa).spatial_weights(Ba)
    except Exception as e:
        ctx.check(False, "no-unexpected-error", f"spatial_weights raised {e!r}", **info, **error_info(e, P, idx))
        return
    ctx.count("spatial_weight_calls")
    w = np.asarray(w, dtype=float)
    # hvsrpy closes unbounded cells with far points at a fixed radius of 1e6: clipping such a polygon loses
    # about radius/extent ulps, so the admissible error grows for small arrays (stated in ASSUMPTIONS)
    ext = float(np.ptp(B, axis=0).max())
    # Qhull computes circumcentres from the raw coordinates: with coordinate magnitude M and sensor separation d
    # a Voronoi vertex is only good to about eps*M^2/d, i.e. a weight to eps*M^2/(d*extent) (conditioning, not a defect)
    M = float(np.max(np.abs(B)))
    Pin = P[idx]
    dmin = min(float(np.min(np.hypot(*(Pin[i] - np.delete(Pin, i, axis=0)).T))) for i in range(len(Pin)))
    if cls == "grid":
        dmin = min(dmin, 1e-4 * scale)      # nearly co-circular quadruples: the jitter, not the spacing, conditions the vertices
    tol = 1e-8 + 50 * (1e6 / ext) * 2.2e-16 + 64 * 2.2e-16 * M * M / (max(dmin, 1e-300) * ext)
    info["tolerance"] = tol
    ctx.check(list(ind) == list(idx), "retained-indices", "returned indices are not the sensors strictly inside the boundary",
              got=list(ind)[:20], want=idx[:20], **info)
    if list(ind) != list(idx):
        return
    mech = closing_radius_mechanism(P[idx])
    ctx.check(bool(np.all(w >= -1e-12)) and abs(w.sum() - 1) <= 1e-9, "weights-nonnegative-sum-to-one",
              "weights negative or not summing to one", total=float(w.sum()), minimum=float(w.min()), mechanism=mech, **info)
    ctx.check(w.shape == want.shape and bool(np.all(np.abs(w - want) <= tol)), "weights-equal-area-fractions",
              "a weight differs from the fraction of the boundary's convex region nearest to that sensor",
              worst=float(np.max(np.abs(w - want))) if w.shape == want.shape else None, got=w[:8], want=want[:8], mechanism=mech, **info)
    # bounded_voronoi regions: polygon areas give the same weights
    regs, ind2 = hvsrpy.HvsrSpatial(P).bounded_voronoi(B)
    tot = MV.area(MV.convex_hull(B))
    a2 = np.array([abs(MV.area(np.asarray(r))) for r in regs]) / tot
    ctx.check(list(ind2) == list(idx) and bool(np.all(np.abs(a2 - want) <= tol)), "bounded-voronoi-regions",
              "bounded_voronoi regions do not have the nearest-sensor areas", mechanism=mech, **info)
    # invariances on the real code
    perm = rng.permutation(len(P))
    wp, ip = hvsrpy.HvsrSpatial(P[perm]).spatial_weights(B[rng.permutation(len(B))])
    back = {int(perm[k]): float(v) for k, v in zip(ip, wp)}
    okp = sorted(back) == sorted(idx) and all(abs(back[i] - w[j]) <= 1e-7 + 4 * tol for j, i in enumerate(idx))
    t = rng.uniform(-50, 50, 2) * scale
    wt, it = hvsrpy.HvsrSpatial(P + t).spatial_weights(B + t)
    s2 = float(rng.choice([0.5, 3.0, 7.0]))
    ws, is_ = hvsrpy.HvsrSpatial(P * s2).spatial_weights(B * s2)
    okt = list(it) == list(idx) and bool(np.all(np.abs(np.asarray(wt) - w) <= 1e-7 + 4 * tol))
    oks = list(is_) == list(idx) and bool(np.all(np.abs(np.asarray(ws) - w) <= 1e-7 + 4 * tol))
    ctx.check(okp and okt and oks, "permutation-translation-scaling-invariant", "weights change under permutation / translation / scaling",
              permutation_ok=okp, translation_ok=okt, scaling_ok=oks,
              mechanism=closing_radius_mechanism(P[idx], (P + t)[idx], (P * s2)[idx]), **info)
    if len(idx) >= 5 and np.ptp(w) > 1e-6:
        ctx.nontrivial([cls, len(P), hk, [round(float(o), 3) for o in offset], scale])
    ctx.state([cls, hk, float(np.max(np.abs(offset))), scale])


def fam_montecarlo(ctx, rng):
    import hvsrpy
    g = int(rng.integers(1, 31))
    dg = str(rng.choice(["lognormal", "normal"]))
    ds = str(rng.choice(["lognormal", "normal"]))
    N = int(rng.choice([1, 2, 10, 100, 2000]))
    fn = rng.uniform(0.5, 10, g)
    if dg == "lognormal":
        means, stds = np.log(fn), rng.uniform(0.01, 0.4, g)
    else:
        means, stds = fn, fn * rng.uniform(0.005, 0.08, g)
    zero = bool(rng.random() < 0.25)
    if zero:
        stds = np.zeros(g)
    wts = rng.uniform(0.1, 1, g)
    wts /= wts.sum() if rng.random() < 0.5 else 1.0
    seed = int(rng.integers(0, 2 ** 31))
    info = dict(generators=g, distribution_generators=dg, distribution_spatial=ds, n_realizations=N, zero_spread=zero, seed=seed)
    ctx.describe(**info, means=means[:5], stds=stds[:5], weights=wts[:5])

    # the three per-generator vectors as a caller may hold them: arrays, lists / tuples, or columns of a pandas table that
    # was sorted / sampled (same positional order, integer index labels permuted)
    container = str(rng.choice(["ndarray", "ndarray", "list", "tuple", "pandas-series-permuted-index", "pandas-series-default-index",
                                "strided-view"]))
    info["container"] = container

    def held(v):
        v = np.asarray(v, dtype=float)
        if container == "list":
            return v.tolist()
        if container == "tuple":
            return tuple(v.tolist())
        if container.startswith("pandas"):
            import pandas as pd
            idx = np.random.default_rng(seed).permutation(v.size) if "permuted" in container else np.arange(v.size)
            return pd.Series(v, index=idx)
        if container == "strided-view":
            buf = np.full(v.size * 2, np.nan)
            buf[::2] = v
            return buf[::2]
        return v

    def call(w=wts, s=seed):
        return hvsrpy.montecarlo_fn(held(means), held(stds), held(w), distribution_generators=dg, distribution_spatial=ds,
                                    n_realizations=N, rng=np.random.default_rng(s))
    with np.errstate(all="ignore"):
        m, sd, real = call()
    ctx.count("montecarlo_calls")
    real = np.asarray(real, dtype=float)
    if not np.all(np.isfinite(real)):
        ctx.count("non_finite_realisations_not_judged")
        return
    x = np.log(real) if ds == "lognormal" else real
    wn = wts / wts.sum()
    pw = np.repeat(wn[:, None] / N, N, axis=1)
    mu = float(np.sum(pw * x))
    want_m = float(np.exp(mu)) if ds == "lognormal" else mu
    den = 1.0 - float(np.sum(pw ** 2))
    ok = real.shape == (g, N) and close(m, want_m, rtol=1e-10)
    if den > 1e-12:
        want_sd = float(np.sqrt(np.sum(pw * (x - mu) ** 2) / den))
        ok = ok and (close(sd, want_sd, rtol=1e-8) or abs(sd - want_sd) <= 1e-10 * (abs(mu) + 1))
    else:
        want_sd = None
    ctx.check(ok, "montecarlo-weighted-statistics", "mean / std are not the weighted statistics of the realisations in the "
              "requested space", got=[m, sd], want=[want_m, want_sd], **info)
    with np.errstate(all="ignore"):
        m2, sd2, real2 = call()
    ctx.check(biteq(np.asarray(m), np.asarray(m2)) and biteq(np.asarray(sd), np.asarray(sd2)) and biteq(real, np.asarray(real2, float)),
              "montecarlo-reproducible", "same seeded generator, different result", **info)
    c = float(rng.choice([0.5, 3.0, 100.0, 1e-3]))
    with np.errstate(all="ignore"):
        m3, sd3, _ = call(w=wts * c)
    ok3 = close(m3, m, rtol=1e-12) and (close(sd3, sd, rtol=1e-9) or (np.isnan(sd3) and np.isnan(sd)) or abs(sd3 - sd) <= 1e-10 * (abs(mu) + 1))
    ctx.check(ok3, "montecarlo-weight-scale-invariant", f"statistics change when all weights are multiplied by {c}",
              before=[m, sd], after=[m3, sd3], **info)
    if zero:
        if dg == "lognormal" and ds == "normal":
            v = np.exp(means)
        elif dg == "normal" and ds == "lognormal":
            v = np.log(means)
        else:
            v = means
        cf = float(np.sum(wn * v))
        cf = float(np.exp(cf)) if ds == "lognormal" else cf
        ctx.check(close(m, cf, rtol=1e-10), "montecarlo-zero-spread-closed-form",
                  "with zero generating standard deviations the mean is not the weighted (log-)mean of the generator means",
                  got=m, want=cf, **info)
    if g >= 2 and np.ptp(wn) > 1e-6:
        ctx.nontrivial([g, dg, ds, N, seed, zero])
    ctx.state([dg, ds, N, zero])


def fam_object_reuse(ctx, rng):
    """ONE HvsrSpatial instance asked for several boundaries in a row (wide / tight / shifted ones that retain different
    sensors), spatial_weights and bounded_voronoi interleaved, coordinates reassigned: every answer must be the one a
    fresh object gives (and the model's)."""
    import hvsrpy
    boundary, hk = gen_boundary(rng)
    pts, cls = gen_sensors(rng, boundary)
    obj = hvsrpy.HvsrSpatial(pts)
    seq = []
    regs = None
    for step in range(int(rng.integers(2, 6))):
        kind = str(rng.choice(["same", "same", "tight", "wide", "shifted", "new-coordinates"]))
        c = MV.convex_hull(boundary).mean(axis=0)
        if kind == "tight":
            B = c + (boundary - c) * float(rng.uniform(0.35, 0.8))
        elif kind == "wide":
            B = c + (boundary - c) * float(rng.uniform(1.2, 3.0))
        elif kind == "shifted":
            B = boundary + rng.uniform(-0.4, 0.4, 2)
        else:
            B = boundary
        if kind == "new-coordinates":
            pts = pts + rng.normal(0, 0.03, pts.shape)
            obj.coordinates = np.array(pts)
        want, idx, amb = MV.weights(pts, B)
        if amb or len(idx) < 4:
            ctx.count("ambiguous_skipped" if amb else "fewer_than_four_inside")
            continue
        if not resolvable(pts, idx, B):
            ctx.count("layouts_not_resolvable_in_double_precision_skipped")
            continue
        seq.append(kind)
        info = dict(layout=cls, n=int(len(pts)), step=step, boundary_kind=kind, sequence=list(seq))
        try:
            if rng.random() < 0.5:
                w_out, ind = obj.spatial_weights(B)
                w = np.array(w_out, float)
                if isinstance(w_out, np.ndarray) and w_out.flags.writeable and rng.random() < 0.6:
                    w_out *= 100.0
            else:
                regs, ind = obj.bounded_voronoi(B)
                w = np.array([abs(MV.area(np.asarray(r))) for r in regs]) / MV.area(MV.convex_hull(B))
        except Exception as e:
            ctx.check(False, "reused-object-equals-fresh-object", f"a reused HvsrSpatial raised {e!r}", **info, **error_info(e, pts, idx))
            continue
        ctx.count("spatial_weight_calls")
        ok = list(ind) == list(idx) and w.shape == want.shape and bool(np.all(np.abs(w - want) <= 1e-7))
        ind_seen = list(ind)
        # what was handed out is the caller's: cells rescaled to kilometres for a map, weights turned into percent,
        # the index list consumed - the next answer of the object is still the one for the boundary it is given
        if rng.random() < 0.6:
            handed = [w0 for w0 in (regs or []) if isinstance(w0, np.ndarray) and w0.flags.writeable]
            for arr in handed:
                arr /= 1000.0
            if isinstance(ind, list) and ind:
                ind.pop()
                ind.reverse()
            elif isinstance(ind, np.ndarray) and ind.flags.writeable:
                ind[:] = ind[::-1].copy()
            ctx.count("answers_edited_by_the_caller")
            regs = None
        ind = ind_seen
        ctx.check(ok, "reused-object-equals-fresh-object", "a reused HvsrSpatial object gives weights / indices that are not the "
                  "nearest-retained-sensor area fractions for the boundary it was just given", indices=list(ind)[:12],
                  expected_indices=idx[:12], n_weights=int(w.size), **info)
    ctx.describe(layout=cls, n=int(len(pts)), sequence=seq)
    if len(set(seq)) >= 2:
        ctx.nontrivial(["reuse", cls, len(pts), seq])


FAMILIES = [("sensor-layout", fam_layout), ("monte-carlo", fam_montecarlo), ("object-reuse-history", fam_object_reuse)]
