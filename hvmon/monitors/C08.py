"""C08 - reported peaks are the highest local maximum inside the search range.

Probe: icontract class invariants attached in place to HvsrCurve / HvsrTraditional / HvsrAzimuthal
("the cached peak equals the reference search for the *stored* range"), evaluated after __init__ and
after every public method of every object the workload touches -- so a stale peak after a range
update is caught where it becomes observable, not only at the end.  Plus explicit judgements of
mean_curve_peak() (traditional, azimuthal, diffuse field).  Oracle: models/peaks.py (value based,
two sided: what may be reported / what must be found).
"""

import numpy as np

from ..models.peaks import Oracle
from .. import gen, readers

PROPERTY = "C08"
NUM = 8
RULE = ("cases = (frequency grid: linear/log/irregular, 3-400 points; curve class: smooth single/multi peak, noisy, "
        "monotone, flat, quantised with ties and plateaus, edge maxima; object kind: HvsrCurve / HvsrTraditional / "
        "HvsrAzimuthal / HvsrDiffuseField; a history of 1-8 search-range updates: None/on-sample/mid-sample/"
        "out-of-grid/inverted/zero-width/list-or-tuple/repeated); non-trivial = at least one judged curve has >= 2 local "
        "maxima or a range that excludes a local maximum; distinct = (kind, grid, curve class, n, history of range "
        "classes) signatures")
ASSUMPTIONS = [
    "a plateau counts as one local maximum and any of its samples may be reported (scipy reports the middle one)",
    "must-find set = interior local maxima of the curve restricted to f_low <= f <= f_high (the restricted curve's end samples are never interior): the statement does not prescribe how a limit is mapped to a sample",
    "find_peaks_kwargs other than None / {} are outside the oracle (prominence etc. change the definition of a peak)",
]
NOT_REACHED = ["non-increasing frequency grids", "find_peaks_kwargs with prominence/width", "grids above 4200 points"]
BUDGET = {"quick": dict(cases=5000, seconds=60, shards=4),
          "thorough": dict(cases=300000, seconds=600, shards=16)}
REQUIRED = ["arrays_handed_out_and_edited", "mon:query-leaves-peak-state-unchanged", "mon:cached-peak-matches-stored-range", "mon:mean-curve-peak", "mon:nan-peak-not-in-statistics",
            "invariant_evaluations"]

CTX = [None]


class InvariantBroken(Exception):
    pass


def judge_cached(ctx, label, f, y, rng_, fp, ap, kwargs, extra=None):
    if kwargs not in (None, {}):
        ctx.count("skipped_find_peaks_kwargs")
        return True
    if rng_ is None or isinstance(rng_, str):
        return True
    o = Oracle(f, y, tuple(rng_))
    probs = o.judge(fp, ap)
    ok = not probs
    kind = "cached-peak-matches-stored-range"
    ctx.counters["mon:" + kind] += 1
    if not ok:
        ctx.violation(probs[0][0], f"{label}: {probs[0][1]}", frequency=f, curve=y, search_range=list(rng_),
                      reported=[fp, ap], all_problems=[p[0] for p in probs], **(extra or {}))
    return ok


# -- invariants (record and return True: a firing invariant must not abort what it observes) --
def inv_curve(self):
    ctx = CTX[0]
    if ctx is None or not hasattr(self, "peak_frequency") or self.peak_frequency is None:
        return True
    ctx.count("invariant_evaluations")
    judge_cached(ctx, type(self).__name__, self.frequency, self.amplitude, self._search_range_in_hz,
                 self.peak_frequency, self.peak_amplitude, self._find_peaks_kwargs)
    return True


def inv_traditional(self):
    ctx = CTX[0]
    if ctx is None or not hasattr(self, "_main_peak_frq") or isinstance(getattr(self, "_search_range_in_hz", ""), str):
        return True
    ctx.count("invariant_evaluations")
    n = self.n_curves
    ok_masks = (isinstance(self.valid_window_boolean_mask, np.ndarray) and self.valid_window_boolean_mask.dtype == bool
                and self.valid_window_boolean_mask.shape == (n,) and self.valid_peak_boolean_mask.dtype == bool
                and self.valid_peak_boolean_mask.shape == (n,))
    ctx.check(ok_masks, "masks-are-boolean-vectors", "mask of wrong dtype/length")
    for i in range(n):
        judge_cached(ctx, f"HvsrTraditional window {i}", self.frequency, self.amplitude[i], self._search_range_in_hz,
                     self._main_peak_frq[i], self._main_peak_amp[i], self._find_peaks_kwargs, {"window": i})
    nanp = np.isnan(self._main_peak_frq)
    if ok_masks:
        ctx.check(not bool(np.any(self.valid_peak_boolean_mask & nanp)), "nan-peak-not-in-statistics",
                  "a window without a peak is flagged as having a valid peak",
                  mask=self.valid_peak_boolean_mask, peaks=self._main_peak_frq)
    return True


def inv_azimuthal(self):
    ctx = CTX[0]
    if ctx is None or not getattr(self, "hvsrs", None) or not hasattr(self, "meta"):
        return True
    ctx.count("invariant_evaluations")
    r0 = self.hvsrs[0]._search_range_in_hz
    ctx.check(all(h._search_range_in_hz == r0 for h in self.hvsrs), "azimuths-share-search-range",
              "azimuths of one result hold different search ranges", ranges=[list(h._search_range_in_hz) for h in self.hvsrs])
    return True


def setup(ctx):
    import hvsrpy
    import icontract
    CTX[0] = ctx
    for cls, cond in ((hvsrpy.HvsrCurve, inv_curve), (hvsrpy.HvsrTraditional, inv_traditional),
                      (hvsrpy.HvsrAzimuthal, inv_azimuthal)):
        if not getattr(cls, "_hvmon_invariant", False):
            icontract.invariant(cond, error=InvariantBroken)(cls)
            cls._hvmon_invariant = True


# -- generators -----------------------------------------------------------------------------
def gen_grid(rng, ctx=None):
    n = int(rng.choice([3, 4, 5, 6, 8, 12, 20, 50, 128, 400]))
    if bool(rng.random() < 0.02) or (ctx is not None and gen.every_nth(ctx, 0.02)):
        if ctx is not None:
            ctx.count("large_size_cases")
        n = int(rng.choice([1100, 2100, 4200]))          # un-resampled FFT grids: thousands of samples
    kind = str(rng.choice(["linear", "log", "irregular", "integer"]))
    if kind == "linear":
        f = np.linspace(rng.uniform(0.05, 1), rng.uniform(5, 50), n)
    elif kind == "log":
        f = np.geomspace(rng.uniform(0.05, 1), rng.uniform(5, 50), n)
    elif kind == "integer":
        f = np.arange(1, n + 1, dtype=float)
    else:
        f = np.cumsum(rng.uniform(0.05, 2, n))
    return f, kind


CURVES = ["smooth", "multi", "noisy", "monotone-up", "monotone-down", "flat", "quantised", "plateau", "edge-max",
          "second-sample", "equal-peaks"]


def gen_curve(rng, f, cls=None):
    n = f.size
    cls = cls or CURVES[int(rng.integers(0, len(CURVES)))]
    x = np.linspace(0, 1, n)
    if cls == "smooth":
        y = 1 + 4 * np.exp(-0.5 * ((x - rng.uniform(0, 1)) / rng.uniform(0.05, 0.3)) ** 2)
    elif cls == "multi":
        y = np.ones(n)
        for _ in range(int(rng.integers(2, 6))):
            y += rng.uniform(0.5, 4) * np.exp(-0.5 * ((x - rng.uniform(0, 1)) / rng.uniform(0.02, 0.15)) ** 2)
    elif cls == "noisy":
        y = rng.random(n) * 5
    elif cls == "monotone-up":
        y = np.sort(rng.random(n))
    elif cls == "monotone-down":
        y = np.sort(rng.random(n))[::-1].copy()
    elif cls == "flat":
        y = np.full(n, float(rng.uniform(0.5, 3)))
    elif cls == "quantised":
        y = rng.integers(0, 4, n).astype(float)
    elif cls == "plateau":
        y = rng.integers(0, 3, n).astype(float)
        w = int(rng.integers(2, 6))
        s = int(rng.integers(0, max(1, n - w)))
        y[s:s + w] = 5.0
    elif cls == "edge-max":
        y = rng.random(n)
        y[0 if rng.random() < 0.5 else -1] = 9.0
    elif cls == "second-sample":
        y = rng.random(n)
        y[1 if rng.random() < 0.5 else -2] = 9.0
    else:
        y = rng.random(n)
        idx = rng.choice(np.arange(1, n - 1), size=min(3, n - 2), replace=False) if n > 3 else [1]
        y[idx] = 7.0
    return np.asarray(y, dtype=float), cls


def gen_range(rng, f, curve=None):
    k = str(rng.choice(["none", "low-only", "high-only", "on-sample", "mid-sample", "midway", "below", "above",
                        "inverted", "zero-width", "huge-upper", "random"]))
    lo = hi = None
    n = f.size
    i, j = sorted(rng.integers(0, n, 2))
    if curve is not None and n >= 5 and rng.random() < 0.15:
        # a range end that hugs the highest sample of a curve: it falls between that sample's neighbour and the sample
        # itself, nearer to the neighbour, so that the peak is the FIRST (or last) sample strictly inside the range
        p = int(np.argmax(np.asarray(curve, dtype=float)))
        if 1 <= p <= n - 2:
            u = float(rng.uniform(0.05, 0.45))
            k = "hugging-the-highest-sample"
            if rng.random() < 0.5:
                lo = float(f[p - 1] + u * (f[p] - f[p - 1]))
                hi = None if rng.random() < 0.5 else float(f[min(n - 1, p + int(rng.integers(2, 40)))])
            else:
                hi = float(f[p + 1] - u * (f[p + 1] - f[p]))
                lo = None if rng.random() < 0.5 else float(f[max(0, p - int(rng.integers(2, 40)))])
            r = (lo, hi)
            return (list(r) if rng.random() < 0.3 else r), k
    if k == "low-only":
        lo = float(rng.uniform(f[0] - 1, f[-1] + 1))
    elif k == "high-only":
        hi = float(rng.uniform(f[0] - 1, f[-1] + 1))
    elif k == "on-sample":
        lo, hi = float(f[i]), float(f[j])
    elif k == "mid-sample":
        lo, hi = float(f[i] + 0.3 * (f[min(i + 1, n - 1)] - f[i])), float(f[j] - 0.3 * (f[j] - f[max(j - 1, 0)]))
    elif k == "midway":
        lo = float(0.5 * (f[i] + f[min(i + 1, n - 1)]))
        hi = float(0.5 * (f[j] + f[max(j - 1, 0)]))
    elif k == "below":
        lo, hi = float(f[0] - 5), float(f[0] - 1)
    elif k == "above":
        lo, hi = float(f[-1] + 1), float(f[-1] + 5)
    elif k == "inverted":
        lo, hi = float(f[j]), float(f[i]) - 0.01
    elif k == "zero-width":
        lo = hi = float(f[i])
    elif k == "huge-upper":
        lo, hi = (None if rng.random() < 0.5 else float(f[i])), 1e9
    elif k == "random":
        lo, hi = sorted(float(v) for v in rng.uniform(f[0] - 1, f[-1] + 1, 2))
    # the ends may arrive as any real scalar type (values taken from arrays are numpy scalars, not Python floats)
    if rng.random() < 0.3:
        lo, hi = scalar_form(rng, lo), scalar_form(rng, hi)
        k += "+scalar-types"
    r = (lo, hi)
    if rng.random() < 0.3:
        r = [lo, hi]
    return r, k


def scalar_form(rng, v):
    """The same end of a range as another real scalar type (the value may be rounded by the type; the rounded value
    is then simply the requested one)."""
    if v is None:
        return None
    form = str(rng.choice(["float", "np.float64", "np.float32", "np.int64", "int", "np.float16"]))
    with np.errstate(all="ignore"):
        if form == "np.float64":
            return np.float64(v)
        if form == "np.float32":
            return np.float32(v)
        if form == "np.float16" and abs(v) < 6e4:
            return np.float16(v)
        if form == "np.int64" and abs(v) < 1e15:
            return np.int64(round(v))
        if form == "int" and abs(v) < 1e15:
            return int(round(v))
    return v


def nontrivial_sig(ctx, kind, gkind, ccls, n, hist):
    ctx.nontrivial([kind, gkind, ccls, n, hist])
    ctx.state([kind, ccls, hist[-1] if hist else None])


# -- families -------------------------------------------------------------------------------
def fam_curve(ctx, rng):
    import hvsrpy
    f, gk = gen_grid(rng, ctx)
    y, cc = gen_curve(rng, f)
    diffuse = rng.random() < 0.3
    cls = hvsrpy.HvsrDiffuseField if diffuse else hvsrpy.HvsrCurve
    c = cls(f, y)
    hist = []
    for _ in range(int(rng.integers(1, 9))):
        r, rk = gen_range(rng, f, y)
        if rng.random() < 0.2 and hist:
            r, rk = hist[-1]
        hist.append((r, rk))
        kw = {} if rng.random() < 0.3 else None
        c.update_peaks_bounded(search_range_in_hz=r, find_peaks_kwargs=kw)
        # explicit end-to-end judgement in addition to the invariant
        judge_cached(ctx, "after update", f, y, tuple(r), c.peak_frequency, c.peak_amplitude, None)
        ctx.check(tuple(c._search_range_in_hz) == tuple(r), "stored-range-is-requested-range",
                  "stored search range differs from the requested one", stored=c._search_range_in_hz, asked=list(r))
        if diffuse:
            # a QUERY with another range (or a failing one) must not change the object's own range / peak
            before_q = (c._search_range_in_hz, repr(c.peak_frequency), repr(c.peak_amplitude), repr(c.meta.get("search_range_in_hz")))
            r_other, _ = gen_range(rng, f)
            try:
                c.mean_curve_peak(search_range_in_hz=r_other)
            except ValueError:
                pass
            after_q = (c._search_range_in_hz, repr(c.peak_frequency), repr(c.peak_amplitude), repr(c.meta.get("search_range_in_hz")))
            ctx.check(before_q == after_q, "query-leaves-peak-state-unchanged",
                      "asking for the mean-curve peak in another range changed the object's own search range / peak",
                      before=list(before_q), after=list(after_q), asked=list(r_other))
            # the range REQUESTED in the call decides (the documented default is the full range), whatever range the
            # object itself stores: the full range asked for explicitly, by default, and another range
            for asked, call in (((None, None), lambda: c.mean_curve_peak(search_range_in_hz=(None, None))),
                                ((None, None), lambda: c.mean_curve_peak()),
                                (tuple(r_other), lambda: c.mean_curve_peak(search_range_in_hz=r_other))):
                oq = Oracle(f, y, asked)
                try:
                    fq, aq = call()
                    pq = oq.judge(fq, aq)
                    ctx.check(not pq, "mean-curve-peak", f"diffuse-field mean_curve_peak for a requested range that is not the stored one: {pq[0][1] if pq else ''}",
                              frequency=f, curve=y, search_range=list(asked), stored_range=list(r), reported=[fq, aq],
                              mechanism="requested-range-differs-from-stored-range")
                except ValueError:
                    ctx.check(not oq.nan_forbidden, "mean-curve-peak", "diffuse-field mean_curve_peak refused although the requested "
                              "range holds an interior local maximum", frequency=f, curve=y, search_range=list(asked), stored_range=list(r),
                              mechanism="requested-range-differs-from-stored-range")
            o = Oracle(f, y, tuple(r))
            try:
                fp, ap = c.mean_curve_peak(search_range_in_hz=r)
                probs = o.judge(fp, ap)
                ctx.check(not probs, "mean-curve-peak", f"diffuse-field mean_curve_peak: {probs[0][1] if probs else ''}",
                          frequency=f, curve=y, search_range=list(r), reported=[fp, ap])
            except ValueError:
                ctx.check(not o.nan_forbidden, "mean-curve-peak", "diffuse-field mean_curve_peak refused although the "
                          "range holds an interior local maximum", frequency=f, curve=y, search_range=list(r))
    ctx.describe(kind=cls.__name__, grid=gk, curve_class=cc, frequency=f, curve=y, history=[h[0] for h in hist])
    nontrivial_sig(ctx, cls.__name__, gk, cc, f.size, [h[1] for h in hist])


def _peak_state(obj):
    import hvsrpy
    hs = obj.hvsrs if isinstance(obj, hvsrpy.HvsrAzimuthal) else [obj]
    return [(h._search_range_in_hz, h._main_peak_frq.tobytes(), h._main_peak_amp.tobytes(),
             h.valid_window_boolean_mask.tobytes(), h.valid_peak_boolean_mask.tobytes()) for h in hs]


def _mean_peak_check(ctx, obj, label, f, search_range, dists=("lognormal", "normal")):
    st0 = _peak_state(obj)
    _mean_peak_check_inner(ctx, obj, label, f, search_range, dists)
    ctx.check(_peak_state(obj) == st0, "query-leaves-peak-state-unchanged",
              f"{label}: mean_curve / mean_curve_peak queries changed the cached peaks, masks or search range")
    # the peak vectors and curves handed out are the caller's (sorted, converted to period, normalised in place);
    # the cached peaks still are the ones of the stored range afterwards and the accessors answer as before
    changed, second, edited = readers.read_then_scribble(obj, dists[0], rng=True)
    ctx.count("arrays_handed_out_and_edited", edited)
    ctx.check(_peak_state(obj) == st0 and not changed and not second, "query-leaves-peak-state-unchanged",
              f"{label}: editing the arrays returned by peak_frequencies / peak_amplitudes / mean_curve / ... changed the "
              "object's cached peaks, masks, curves or its later answers", mechanism="returned-array-shares-memory-with-object",
              state_changed=changed[:4], second_answer_differs=second[:4])


def _mean_peak_check_inner(ctx, obj, label, f, search_range, dists=("lognormal", "normal")):
    for d in dists:
        try:
            mc = np.asarray(obj.mean_curve(d), dtype=float)
        except Exception:
            ctx.count("mean_curve_unavailable")
            continue
        if mc.shape != f.shape or not np.all(np.isfinite(mc)):
            ctx.count("mean_curve_unavailable")
            continue
        o = Oracle(f, mc, tuple(search_range))
        try:
            fp, ap = obj.mean_curve_peak(d)
        except ValueError:
            ctx.check(not o.nan_forbidden, "mean-curve-peak", f"{label}: mean_curve_peak refused although the mean "
                      "curve has an interior local maximum in the range", frequency=f, curve=mc, search_range=list(search_range))
            continue
        probs = o.judge(fp, ap)
        ctx.check(not probs, "mean-curve-peak", f"{label} ({d}): {probs[0][1] if probs else ''}",
                  frequency=f, curve=mc, search_range=list(search_range), reported=[fp, ap],
                  problems=[p[0] for p in probs])


def fam_traditional(ctx, rng):
    import hvsrpy
    f, gk = gen_grid(rng, ctx)
    m = int(rng.integers(1, 12))
    ccs = [gen_curve(rng, f) for _ in range(m)]
    amp = np.vstack([np.maximum(c[0], 0) + (1e-3 if rng.random() < 0.5 else 0) for c in ccs])
    h = hvsrpy.HvsrTraditional(f, amp)
    hist = []
    for _ in range(int(rng.integers(1, 8))):
        r, rk = gen_range(rng, f, amp[int(rng.integers(0, m))])
        if rng.random() < 0.2 and hist:
            r, rk = hist[-1]
        hist.append((r, rk))
        kw = {} if rng.random() < 0.3 else None
        if rng.random() < 0.15:
            ctx.count("objects_recreated_by_" + gen.recreate_in_place(rng, h))      # the history continues on a copy / unpickled object
        h.update_peaks_bounded(search_range_in_hz=r, find_peaks_kwargs=kw)
        for i in range(m):
            judge_cached(ctx, f"window {i} after update", f, amp[i], tuple(r), h._main_peak_frq[i], h._main_peak_amp[i], None)
        pf = h.peak_frequencies
        ctx.check(not np.any(np.isnan(pf)) and len(pf) == int(np.sum(~np.isnan(h._main_peak_frq))),
                  "nan-peak-not-in-statistics", "peak_frequencies holds a NaN or drops a found peak right after the search",
                  peak_frequencies=pf, cached=h._main_peak_frq)
        if amp.min() > 0:
            _mean_peak_check(ctx, h, "HvsrTraditional", f, r)
            ok = np.flatnonzero(h.valid_peak_boolean_mask)
            if ok.size >= 3 and rng.random() < 0.5:      # a direct mask edit, then ask again (no stale answer)
                import copy
                h2 = copy.deepcopy(h)        # (a copy, so that the history on h itself is not disturbed)
                i = int(rng.choice(ok))
                h2.valid_window_boolean_mask[i] = False
                h2.valid_peak_boolean_mask[i] = False
                _mean_peak_check(ctx, h2, "HvsrTraditional after a direct mask edit", f, r)
    ctx.describe(kind="HvsrTraditional", grid=gk, classes=[c[1] for c in ccs], frequency=f,
                 n_curves=m, history=[x[0] for x in hist])
    nontrivial_sig(ctx, "HvsrTraditional", gk, [c[1] for c in ccs][:4], f.size, [x[1] for x in hist])


def fam_azimuthal(ctx, rng):
    import hvsrpy
    f, gk = gen_grid(rng, ctx)
    naz = int(rng.integers(1, 5))
    hv = []
    classes = []
    for _ in range(naz):
        m = int(rng.integers(1, 6))
        cs = [gen_curve(rng, f) for _ in range(m)]
        classes.append([c[1] for c in cs][:2])
        hv.append(hvsrpy.HvsrTraditional(f, np.vstack([c[0] + 1e-3 for c in cs])))
    az = hvsrpy.HvsrAzimuthal(hv, list(np.sort(rng.uniform(0, 180, naz))))
    hist = []
    for _ in range(int(rng.integers(1, 6))):
        r, rk = gen_range(rng, f, hv[int(rng.integers(0, naz))].amplitude[0])
        hist.append((r, rk))
        if rng.random() < 0.15:
            ctx.count("objects_recreated_by_" + gen.recreate_in_place(rng, az))
        az.update_peaks_bounded(search_range_in_hz=r, find_peaks_kwargs=None)
        for a, h in enumerate(az.hvsrs):
            for i in range(h.n_curves):
                judge_cached(ctx, f"azimuth {a} window {i}", f, h.amplitude[i], tuple(r), h._main_peak_frq[i],
                             h._main_peak_amp[i], None)
        def usable():
            return all(np.any(h.valid_peak_boolean_mask) and np.array_equal(h.valid_peak_boolean_mask, h.valid_window_boolean_mask)
                       for h in az.hvsrs)
        if usable():
            _mean_peak_check(ctx, az, "HvsrAzimuthal", f, r)
        # accept masks changed directly on the per-azimuth objects (as the time-domain and manual rejections do), then the
        # peak of the mean curve is asked again: it must describe the CURRENT mean curve (no stale cached answer)
        for _ in range(int(rng.integers(0, 3))):
            h = az.hvsrs[int(rng.integers(0, naz))]
            ok = np.flatnonzero(h.valid_peak_boolean_mask)
            if ok.size >= 2:
                i = int(rng.choice(ok))
                h.valid_window_boolean_mask[i] = False
                h.valid_peak_boolean_mask[i] = False
                hist.append((r, "mask-edit"))
                if usable():
                    _mean_peak_check(ctx, az, "HvsrAzimuthal after a direct mask edit", f, r)
    # the per-azimuth objects the result was built from remain the caller's: giving THEM another range, or building a
    # second azimuthal result from them with another range, must leave this result's range and peaks alone
    before = _peak_state(az)
    r2, rk2 = gen_range(rng, f)
    if rng.random() < 0.5:
        hv[int(rng.integers(0, naz))].update_peaks_bounded(search_range_in_hz=r2)
        how = "range of a source object updated"
    else:
        az2 = hvsrpy.HvsrAzimuthal(hv, list(az.azimuths))
        az2.update_peaks_bounded(search_range_in_hz=r2)
        how = "second result built from the same source objects"
    hist.append((r2, "source-objects-reused"))
    ctx.check(_peak_state(az) == before, "peaks-follow-own-range-only", f"{how}: the first result's search range / peaks / "
              "masks changed", own_range=list(hist[-2][0]) if len(hist) >= 2 else None, other_range=list(r2), n_azimuths=naz)
    for a, h in enumerate(az.hvsrs):        # (runs the class invariants of the result once more)
        h.peak_frequencies
    ctx.describe(kind="HvsrAzimuthal", grid=gk, classes=classes, n_azimuths=naz, history=[x[0] for x in hist])
    nontrivial_sig(ctx, "HvsrAzimuthal", gk, classes[:2], f.size, [x[1] for x in hist])


def fam_design_witness(ctx, rng):
    """The hand-made cases of DESIGN C08 plus random integer grids with the upper limit on/near the last samples."""
    import hvsrpy
    n = int(rng.integers(4, 9))
    f = np.arange(1, n + 1, dtype=float)
    y = rng.integers(1, 3, n).astype(float)
    p = int(rng.integers(1, n - 1))
    y[p] = 5.0
    c = hvsrpy.HvsrCurve(f, y)
    hist = []
    for hi in (None, 1e9, f[-1] + 0.4, f[-1], f[-1] - 0.4, f[p] + 1, f[p] + 0.6, f[p] + 0.4):
        for lo in (None, f[0], f[p] - 1, f[p] - 1.4, f[p] - 0.6):
            r = (lo, hi)
            c.update_peaks_bounded(search_range_in_hz=r)
            judge_cached(ctx, "grid 1..n", f, y, r, c.peak_frequency, c.peak_amplitude, None)
            hist.append(r)
    ctx.describe(kind="HvsrCurve", frequency=f, curve=y, ranges=len(hist))
    nontrivial_sig(ctx, "witness", "integer", "single-peak", n, [p])


def fam_repo_tests(ctx, rng):
    """Thorough tier, once per run: the repository's own test modules executed with the class invariants attached
    (realistic workloads: example recordings, processing, window rejection, object I/O)."""
    import json
    import os
    import subprocess
    import sys
    import tempfile
    if ctx.tier != "thorough" or not ctx.once_per_run("repo-tests"):
        return fam_traditional(ctx, rng)
    ctx.count("repo_test_runs")
    import hvsrpy
    repo = os.path.dirname(os.path.dirname(os.path.abspath(hvsrpy.__file__)))
    d = tempfile.mkdtemp(prefix="c08-pytest-", dir=os.environ.get("HVMON_SCRATCH"))
    out = os.path.join(d, "plugin.json")
    mods = ["test_hvsr_curve.py", "test_hvsr_traditional.py", "test_hvsr_azimuthal.py", "test_window_rejection.py",
            "test_object_io.py", "test_processing.py", "test_seismic_recording_3c.py", "test_timeseries.py"]
    env = dict(os.environ, HVMON_PLUGIN_OUT=out)
    ctx.describe(kind="repository tests under invariants", modules=mods)
    try:
        subprocess.run([sys.executable, "-W", "ignore", "-m", "pytest", "-q", "-p", "no:cacheprovider", "-p", "hvmon.pytest_plugin",
                        "--timeout=900"] + [os.path.join(repo, "test", m) for m in mods],
                       cwd=d, env=env, capture_output=True, text=True, timeout=1500)
        if os.path.exists(out):
            with open(out) as fh:
                r = json.load(fh)
            for k, v in r["counters"].items():
                if k.startswith("mon:") or k == "invariant_evaluations":
                    ctx.counters["repo-tests:" + k] += v
            for v in r["violations"]:
                ctx.violation(v["kind"], "under the repository's own tests: " + v["message"], test=(v.get("case") or {}).get("test"),
                              **{k: w for k, w in (v.get("witness") or {}).items() if k in ("search_range", "reported", "window")})
        else:
            ctx.count("repo_test_run_produced_no_observations")
    finally:
        import shutil
        shutil.rmtree(d, ignore_errors=True)


FAMILIES = [("repository-tests-under-invariants", fam_repo_tests), ("curve-range-history", fam_curve), ("traditional-range-history", fam_traditional),
            ("azimuthal-range-history", fam_azimuthal), ("upper-limit-near-peak", fam_design_witness)]
