"""C05 - statistics are the stated estimators over exactly the accepted windows.

Events: every statistic accessor of HvsrTraditional, evaluated after *every step* of a random history
of peak-range updates, FDWRA runs, time-domain rejections and manual mask edits.
Oracles: (1) models/stats.py textbook estimators on the accepted windows, (2) the accepted-only twin
object, (3) poisoning of the rejected rows (bit-identical statistics required), (4) lognormal
frequency/period reciprocity and +-n symmetry, (5) the 'log-normal' spelling equals 'lognormal'.
"""

import copy

import numpy as np

from .. import gen, histories
from ..ctx import biteq, close, maxrel
from ..models import stats as MS
from ..models.peaks import Oracle

PROPERTY = "C05"
NUM = 5
RULE = ("cases = a curve set (2-40 curves, 16-256 points; peaked / multi-peaked / noisy / partly flat / with outliers) "
        "and a history of 0-6 steps over {range update, FDWRA, maximum-value or STA/LTA rejection with attached "
        "windows, manual rejection as manual_window_rejection performs it}; every state with >= 2 accepted windows "
        "holding a peak is judged for both distributions and the alias spelling; non-trivial = a judged state with at "
        "least one rejected window or one window without a peak; distinct = (curve kind, n curves, n freq, step kinds, "
        "final mask) signatures")
ASSUMPTIONS = [
    "the cached per-window peaks are taken from the object (their correctness is C08's monitor)",
    "accepted windows = valid_window mask; resonance statistics use the accepted windows that hold a peak",
    "states with fewer than two accepted windows holding a peak are recorded but not judged",
]
NOT_REACHED = ["find_peaks_kwargs other than height / prominence (one range update in eight of the random histories)", "masks of the wrong length assigned by hand"]
BUDGET = {"quick": dict(cases=2400, seconds=60, shards=4),
          "thorough": dict(cases=80000, seconds=600, shards=16)}
REQUIRED = ["mon:textbook-estimator", "mon:accepted-only-twin", "mon:poisoned-rejected-rows-bit-identical",
            "mon:lognormal-reciprocity", "mon:alias-spelling", "mon:mean-curve-peak"]

NS = [-3.0, -2.0, -1.0, -0.5, 0.5, 1.0, 2.0, 3.0]


def accessors(h, dist, ns):
    out = {}

    def grab(name, fn):
        try:
            with np.errstate(all="ignore"):
                out[name] = fn()
        except Exception as e:  # recorded; compared as "raises" between objects
            out[name] = ("raises", type(e).__name__)

    grab("mean_fn_frequency", lambda: h.mean_fn_frequency(dist))
    grab("std_fn_frequency", lambda: h.std_fn_frequency(dist))
    grab("mean_fn_amplitude", lambda: h.mean_fn_amplitude(dist))
    grab("std_fn_amplitude", lambda: h.std_fn_amplitude(dist))
    grab("cov_fn", lambda: h.cov_fn(dist))
    grab("mean_curve", lambda: h.mean_curve(dist))
    grab("std_curve", lambda: h.std_curve(dist))
    grab("mean_curve_peak", lambda: h.mean_curve_peak(dist))
    for n in ns:
        grab(f"nth_std_fn_frequency({n})", lambda n=n: h.nth_std_fn_frequency(n, dist))
        grab(f"nth_std_fn_amplitude({n})", lambda n=n: h.nth_std_fn_amplitude(n, dist))
        grab(f"nth_std_curve({n})", lambda n=n: h.nth_std_curve(n, dist))
    return out


def same_value(a, b, rtol):
    if isinstance(a, tuple) and a and a[0] == "raises":
        return isinstance(b, tuple) and b and b[0] == "raises"
    if isinstance(b, tuple) and b and b[0] == "raises":
        return False
    try:
        return close(np.asarray(a, dtype=float), np.asarray(b, dtype=float), rtol=rtol)
    except Exception:
        return False


def judge_state(ctx, h, steps, rng):
    import hvsrpy
    vw = np.asarray(h.valid_window_boolean_mask, dtype=bool)
    vp = np.asarray(h.valid_peak_boolean_mask, dtype=bool)
    has_peak = ~np.isnan(h._main_peak_frq)
    res = vw & has_peak
    ctx.count("states_seen")
    if vw.sum() < 2 or res.sum() < 2:
        ctx.count("states_not_judged_fewer_than_two_accepted")
        return False
    ctx.count("states_judged")
    f = h.frequency
    pf, pa = h._main_peak_frq[res], h._main_peak_amp[res]
    rows = h.amplitude[vw]
    ns = [float(n) for n in rng.choice(NS, 2, replace=False)]
    sr = h._search_range_in_hz

    for dist in ("normal", "lognormal"):
        got = accessors(h, dist, ns)
        want = {
            "mean_fn_frequency": MS.mean(pf, dist), "std_fn_frequency": MS.std(pf, dist),
            "mean_fn_amplitude": MS.mean(pa, dist), "std_fn_amplitude": MS.std(pa, dist),
            "cov_fn": MS.cov(pf, pa, dist),
            "mean_curve": MS.mean(rows, dist, axis=0), "std_curve": MS.std(rows, dist, axis=0),
        }
        for n in ns:
            want[f"nth_std_fn_frequency({n})"] = MS.nth(want["mean_fn_frequency"], want["std_fn_frequency"], n, dist)
            want[f"nth_std_fn_amplitude({n})"] = MS.nth(want["mean_fn_amplitude"], want["std_fn_amplitude"], n, dist)
            want[f"nth_std_curve({n})"] = MS.nth(want["mean_curve"], want["std_curve"], n, dist)
        for name, w in want.items():
            g = got[name]
            ok = same_value(g, w, 1e-10) if not (isinstance(g, tuple) and g and g[0] == "raises") else False
            # degenerate spreads (identical peaks): absolute tolerance tied to the magnitude of the data
            if not ok and not isinstance(g, tuple):
                tf = (np.max(np.abs(np.log(pf))) if dist == "lognormal" else np.max(np.abs(pf))) + 1.0
                ta = (np.max(np.abs(np.log(pa))) if dist == "lognormal" else np.max(np.abs(pa))) + 1.0
                tc = (np.max(np.abs(np.log(rows))) if dist == "lognormal" else np.max(np.abs(rows))) + 1.0
                if name == "cov_fn":
                    sc = np.sqrt(abs(w[0, 0] * w[1, 1]))
                    ok = bool(np.all(np.abs(np.asarray(g) - w) <= 1e-10 * sc + 1e-12 * tf * ta))
                elif name.startswith("std_fn_frequency") or name.startswith("std_fn_amplitude"):
                    ok = bool(abs(g - w) <= 1e-10 * abs(w) + 1e-12 * (tf if "frequency" in name else ta))
                elif name == "std_curve":
                    ok = bool(np.all(np.abs(np.asarray(g) - w) <= 1e-10 * np.abs(w) + 1e-12 * tc))
                elif name.startswith("nth_std"):
                    ok = same_value(g, w, 1e-9)
            ctx.check(ok, "textbook-estimator", f"{name}({dist}) differs from the estimator over the accepted windows",
                      accessor=name, distribution=dist, got=g, want=w, accepted=int(vw.sum()), with_peak=int(res.sum()),
                      n_curves=int(h.n_curves), valid_peak_mask_includes_nan_peak=bool(np.any(vp & ~has_peak)), steps=steps[-3:])
        # mean-curve peak: judged on the object's own mean curve with the C08 oracle
        mc = got["mean_curve"]
        mp = got["mean_curve_peak"]
        if not isinstance(mc, tuple) and h._find_peaks_kwargs:
            ctx.count("mean_curve_peak_not_judged_find_peaks_kwargs")    # height / prominence redefine "a peak" (C08 ASSUMPTIONS)
        elif not isinstance(mc, tuple):
            o = Oracle(f, mc, tuple(sr))
            if isinstance(mp, tuple) and mp and mp[0] == "raises":
                ctx.check(not o.nan_forbidden, "mean-curve-peak", "mean_curve_peak refused although the mean curve has an "
                          "interior local maximum in the range", distribution=dist, search_range=list(sr))
            else:
                probs = o.judge(mp[0], mp[1])
                ctx.check(not probs, "mean-curve-peak", f"mean_curve_peak({dist}): {probs[0][1] if probs else ''}",
                          distribution=dist, search_range=list(sr), reported=list(mp))

        # (2) accepted-only twin
        twin = hvsrpy.HvsrTraditional(f, h.amplitude[vw])
        twin.update_peaks_bounded(search_range_in_hz=tuple(sr), find_peaks_kwargs=h._find_peaks_kwargs)
        # every window of the twin *is* an accepted window: a window without a peak stays out of the
        # resonance statistics (peak mask) but, being accepted, it does enter the curve statistics
        twin.valid_window_boolean_mask[:] = True
        tg = accessors(twin, dist, ns)
        for name in got:
            ok = same_value(got[name], tg[name], 1e-12)
            if not ok and not isinstance(got[name], tuple) and not isinstance(tg[name], tuple):
                a, b = np.asarray(got[name], dtype=float), np.asarray(tg[name], dtype=float)
                ok = a.shape == b.shape and bool(np.all(np.abs(a - b) <= 1e-12 * max(1.0, float(np.max(np.abs(b))))))
            ctx.check(ok, "accepted-only-twin", f"{name}({dist}) differs from the same accessor of an object built from the "
                      "accepted windows alone", accessor=name, distribution=dist, got=got[name], twin=tg[name],
                      accepted=int(vw.sum()), with_peak=int(res.sum()),
                      valid_peak_mask_includes_nan_peak=bool(np.any(vp & ~has_peak)), steps=steps[-3:])

        # (3) poisoning of the rejected rows
        if (~vw).any():
            p = copy.deepcopy(h)
            rej = np.flatnonzero(~vw)
            p.amplitude[rej] = np.where(rng.random((rej.size, f.size)) < 0.5, 1e6, 1e-6)
            p._main_peak_frq[rej] = f[rng.integers(0, f.size, rej.size)]
            p._main_peak_amp[rej] = 1e6
            pg = accessors(p, dist, ns)
            for name in got:
                a, b = got[name], pg[name]
                if isinstance(a, tuple) and a and a[0] == "raises":
                    ok = isinstance(b, tuple) and b[0] == "raises"
                elif isinstance(b, tuple) and b and b[0] == "raises":
                    ok = False
                else:
                    ok = biteq(np.asarray(a, dtype=float), np.asarray(b, dtype=float))
                ctx.check(ok, "poisoned-rejected-rows-bit-identical", f"{name}({dist}) changes when the rejected rows are "
                          "overwritten", accessor=name, distribution=dist, before=a, after=b, rejected=rej[:8])

    # (4) lognormal reciprocity and symmetry
    gl = accessors(h, "lognormal", ns)
    med, sd = gl["mean_fn_frequency"], gl["std_fn_frequency"]
    if not isinstance(med, tuple) and not isinstance(sd, tuple):
        ok = close(MS.mean(1.0 / pf, "lognormal"), 1.0 / med, rtol=1e-10) and \
            (close(MS.std(1.0 / pf, "lognormal"), sd, rtol=1e-9) or abs(MS.std(1.0 / pf, "lognormal") - sd) < 1e-12)
        for n in ns:
            lo, hi = h.nth_std_fn_frequency(-abs(n), "lognormal"), h.nth_std_fn_frequency(abs(n), "lognormal")
            ok = ok and close(lo * hi, med * med, rtol=1e-10)
        ctx.check(ok, "lognormal-reciprocity", "lognormal median/std of 1/f or the +-n symmetry about the median fails",
                  median=med, std=sd, peaks=pf[:10])
    # (5) accepted alias spelling
    ga = accessors(h, "log-normal", ns)
    bad = [k for k in gl if not (biteq(np.asarray(gl[k], dtype=float), np.asarray(ga[k], dtype=float))
                                 if not isinstance(gl[k], tuple) and not isinstance(ga[k], tuple) else gl[k] == ga[k])]
    ctx.check(not bad, "alias-spelling", "'log-normal' gives different statistics than 'lognormal'", accessors=bad[:6],
              lognormal=[gl[k] for k in bad[:2]], alias=[ga[k] for k in bad[:2]])
    # (6) other capitalisations: a spelling that an accessor accepts names the same distribution (a refusal is fine)
    k = int(np.sum(vw)) % 3
    for canon, spelled, base in (("lognormal", ["Lognormal", "LOGNORMAL", "Log-Normal"][k], gl),
                                 ("normal", ["Normal", "NORMAL", "normal"][k], None)):
        if base is None:
            base = accessors(h, canon, ns)
        gs = accessors(h, spelled, ns)
        bad = [a for a in base if not isinstance(gs[a], tuple) and not isinstance(base[a], tuple)
               and not biteq(np.asarray(base[a], dtype=float), np.asarray(gs[a], dtype=float))]
        ctx.check(not bad, "alias-spelling", f"{spelled!r} is accepted but gives different statistics than {canon!r}",
                  accessors=bad[:6], canonical=[base[a] for a in bad[:2]], spelled=[gs[a] for a in bad[:2]], spelling=spelled)
    return bool((~vw).any() or (~has_peak).any())


def fam_history(ctx, rng):
    nc, big = gen.maybe_large(rng, ctx, None, [1100, 1600, 2500], p_quick=0.008, p_thorough=0.01)   # hours of windows
    h, kind = histories.build_traditional(rng, n_curves=nc, n_freq=16) if big else histories.build_traditional(rng)
    steps_seen = []
    nontriv = judge_state(ctx, h, [], rng)
    for steps in histories.random_history(rng, h, n_steps=int(rng.integers(1, 7))):
        steps_seen = steps
        nontriv = judge_state(ctx, h, steps, rng) or nontriv
    ctx.describe(curve_kind=kind, n_curves=int(h.n_curves), n_freq=int(h.frequency.size), steps=steps_seen,
                 final_mask=h.valid_window_boolean_mask)
    sig = [kind, int(h.n_curves), int(h.frequency.size), [s[0] for s in steps_seen], h.valid_window_boolean_mask.tolist()]
    if nontriv:
        ctx.nontrivial(sig)
    ctx.state([[s[0] for s in steps_seen], int((~h.valid_window_boolean_mask).sum())])


def fam_no_peak_windows(ctx, rng):
    """Curve sets in which some accepted windows have no peak in a narrow range, then time-domain rejection."""
    h, kind = histories.build_traditional(rng, kind="outliers")
    f = h.frequency
    lo = float(np.exp(rng.uniform(np.log(f[1]), np.log(f[-4]))))
    h.update_peaks_bounded(search_range_in_hz=(lo, lo * float(rng.uniform(1.3, 2.5))))
    steps = [["range", list(h._search_range_in_hz)]]
    nontriv = judge_state(ctx, h, steps, rng)
    steps.append(histories.step_time_domain(rng, h, h.n_curves))
    nontriv = judge_state(ctx, h, steps, rng) or nontriv
    steps.append(histories.step_manual(rng, h, [h]))
    nontriv = judge_state(ctx, h, steps, rng) or nontriv
    ctx.describe(curve_kind=kind, n_curves=int(h.n_curves), steps=steps, peaks=h._main_peak_frq)
    if nontriv:
        ctx.nontrivial(["nopeak", int(h.n_curves), h.valid_window_boolean_mask.tolist(), np.isnan(h._main_peak_frq).tolist()])


FAMILIES = [("random-history", fam_history), ("windows-without-peak-then-rejections", fam_no_peak_windows),
            ("random-history-2", fam_history)]
