"""C04 - sensor orientation and azimuth handling are geometrically consistent.

Probes: SeismicRecording3C.orient_sensor_to (before/after samples, degrees_from_north, meta) and
hvsrpy.process under single-azimuth / azimuthal / RotDpp / rotation-invariant settings.
Oracle: synthetic ground truth written by the harness (motion polarised on a true azimuth, "recorded"
by a sensor deployed at an arbitrary angle) + relations between executions of the real code.
"""

import warnings

import numpy as np

from .. import gen
from ..ctx import biteq, close, maxrel
from . import C01

PROPERTY = "C04"
NUM = 4
RULE = ("rotation cases = (true azimuth psi, deployed angle theta, chain of 1-6 targets; all anywhere in [-720,1080] incl. "
        "multiples of 90; polarised signal + optional orthogonal noise); HVSR cases = random recording x (single azimuth "
        "a vs orient-to-(current+a); a vs a+180; azimuthal vs stack of single azimuths; RotDpp percentiles vs min/max over "
        "azimuths; azimuthal vs single azimuths with fft_settings={'n': None}; azimuthal vs single azimuths for 2-5 recordings with mixed time steps under each dissimilar-time-step policy; rotation-invariant methods for the same ground motion recorded at two deployment angles); non-trivial = "
        "a rotation by an angle that is not a multiple of 360 / an azimuth set with >= 2 azimuths; distinct = (psi, theta, "
        "targets) resp. (relation, method, operator, azimuths) signatures")
ASSUMPTIONS = [
    "clockwise-from-north convention: a sensor deployed at theta records ns' = N cos(theta) + E sin(theta), ew' = -N sin(theta) + E cos(theta)",
    "tolerance 1e-9 x signal scale for rotated samples (cos/sin of large angles lose a few ulps), bit equality only where the two executions perform identical operations",
]
NOT_REACHED = ["azimuth sets outside [0,180] for HvsrAzimuthal (refused by design)"]
BUDGET = {"quick": dict(cases=3500, seconds=60, shards=4),
          "thorough": dict(cases=200000, seconds=600, shards=16)}
REQUIRED = ["mon:rotation-matches-ground-truth", "mon:energy-preserved", "mon:vertical-untouched",
            "mon:orientation-recorded", "mon:composition-and-inverse", "mon:single-azimuth-equals-oriented-north",
            "mon:azimuth-180-periodic", "mon:azimuthal-is-stack-of-single-azimuths", "mon:rotdpp-monotone-and-bounded",
            "mon:rotation-invariant-methods"]

ANGLES = [0., 90., 180., 270., 360., -90., 45., 30., 720., -720., 450.]


def angle(rng):
    return float(rng.choice(ANGLES)) if rng.random() < 0.35 else float(rng.uniform(-720, 1080))


def deployed(N, E, theta):
    t = np.radians(theta)
    return N * np.cos(t) + E * np.sin(t), -N * np.sin(t) + E * np.cos(t)


def fam_rotation(ctx, rng):
    n = int(rng.choice([50, 500, 3000]))
    n, _ = gen.maybe_large(rng, ctx, n, [1_100_000, 2_300_000], p_quick=0.01, p_thorough=0.02)   # hours of data
    sc = gen.scale(rng)
    s = gen.signal(rng, n) * sc
    psi, theta = angle(rng), angle(rng)
    noise = (0.0 if rng.random() < 0.5 else 0.2) * sc * rng.standard_normal(n)
    p = np.radians(psi)
    N = s * np.cos(p) - noise * np.sin(p)
    E = s * np.sin(p) + noise * np.cos(p)
    Z = rng.standard_normal(n) * sc
    ns0, ew0 = deployed(N, E, theta)
    meta = None
    if rng.random() < 0.3:
        # the descriptive metadata of a campaign is handed on from an earlier recording of the same site (another sensor
        # orientation): the orientation of THIS recording is the constructor's argument
        other = gen.make_recording(ns0[:8].copy(), ew0[:8].copy(), Z[:8].copy(), 0.01, degrees_from_north=angle(rng))
        if rng.random() < 0.5:
            other.orient_sensor_to(angle(rng))
        meta = other.meta if rng.random() < 0.5 else dict(other.meta, site="campaign")
        ctx.count("recordings_built_with_metadata_of_another_recording")
    # whole / half degrees are handed over as whatever numeric type the caller's loop or file produced (same value)
    if rng.random() < 0.3:
        theta = float(rng.choice([0., 30., 45., 90., 200., 12.5, 270., 359.]))
        ns0, ew0 = deployed(N, E, theta)
    theta_arg, theta_type = gen.scalar_form(rng, theta)
    rec = gen.make_recording(ns0, ew0, Z, 0.01, degrees_from_north=theta_arg, meta=meta)
    scale = float(np.max(np.abs(np.concatenate([N, E])))) + 1e-300
    targets = [0.0] + [angle(rng) for _ in range(int(rng.integers(0, 6)))]
    rng.shuffle(targets)
    ctx.describe(psi=psi, theta=theta, targets=targets, n=n, scale=sc)
    z_before = rec.vt.amplitude.copy()
    energy = N ** 2 + E ** 2
    stored0 = rec.degrees_from_north
    ctx.check(abs(((stored0 - theta) + 180) % 360 - 180) < 1e-9, "orientation-recorded",
              "constructor does not store the deployed orientation (mod 360)", stored=stored0, theta=theta)
    if rng.random() < 0.3:
        targets = [float(rng.choice([0., 10., 30., 45., 90., 200., 12.5, 255., 359., -90., 720.])) for _ in targets]
    for tg in targets:
        tg_arg, tg_type = gen.scalar_form(rng, tg)
        if tg_type != "float":
            ctx.count("angles_given_as:" + tg_type)
        rec.orient_sensor_to(tg_arg)
        ctx.count("orient_calls")
        want_ns, want_ew = deployed(N, E, tg)
        tol = 1e-9 * scale * (1 + abs(tg) / 360 + abs(theta) / 360)
        ok = bool(np.all(np.abs(rec.ns.amplitude - want_ns) <= tol) and np.all(np.abs(rec.ew.amplitude - want_ew) <= tol))
        ctx.check(ok, "rotation-matches-ground-truth", f"after orient_sensor_to({tg}) the horizontals are not the ground "
                  "motion seen by a sensor pointing to that azimuth", psi=psi, theta=theta, target=tg, target_given_as=tg_type, deployed_given_as=theta_type,
                  err_ns=float(np.max(np.abs(rec.ns.amplitude - want_ns)) / scale),
                  err_ew=float(np.max(np.abs(rec.ew.amplitude - want_ew)) / scale))
        e2 = rec.ns.amplitude ** 2 + rec.ew.amplitude ** 2
        ctx.check(bool(np.all(np.abs(e2 - energy) <= 1e-9 * scale ** 2 * (1 + abs(tg) / 360))), "energy-preserved",
                  "ns^2+ew^2 changed sample by sample", target=tg)
        ctx.check(biteq(rec.vt.amplitude, z_before), "vertical-untouched", "vertical component modified by re-orientation")
        ctx.check(abs(((rec.degrees_from_north - tg) + 180) % 360 - 180) < 1e-9 and
                  abs(((rec.meta["current degrees from north"] - tg) + 180) % 360 - 180) < 1e-9, "orientation-recorded",
                  "degrees_from_north / meta do not hold the target (mod 360)", stored=rec.degrees_from_north, target=tg)
        if abs(tg) < 1e-12:
            # polarised motion reappears on its azimuth: projection on psi carries s, orthogonal carries the noise
            along = rec.ns.amplitude * np.cos(p) + rec.ew.amplitude * np.sin(p)
            ctx.check(bool(np.all(np.abs(along - s) <= 1e-9 * scale * (1 + abs(theta) / 360 + abs(psi) / 360))),
                      "rotation-matches-ground-truth", "polarised motion does not reappear on its azimuth after orienting to north",
                      psi=psi, theta=theta)
    # composition: orient(a); orient(b) == orient(b) from the start; inverse restores the original
    a, b = angle(rng), angle(rng)
    r1 = gen.make_recording(ns0, ew0, Z, 0.01, degrees_from_north=theta)
    r2 = gen.make_recording(ns0, ew0, Z, 0.01, degrees_from_north=theta)
    r1.orient_sensor_to(a)
    r1.orient_sensor_to(b)
    r2.orient_sensor_to(b)
    tol = 1e-9 * scale * (1 + (abs(a) + abs(b) + abs(theta)) / 360)
    ok = bool(np.all(np.abs(r1.ns.amplitude - r2.ns.amplitude) <= tol) and np.all(np.abs(r1.ew.amplitude - r2.ew.amplitude) <= tol))
    r1.orient_sensor_to(theta)
    ok2 = bool(np.all(np.abs(r1.ns.amplitude - ns0) <= tol) and np.all(np.abs(r1.ew.amplitude - ew0) <= tol))
    ctx.check(ok and ok2, "composition-and-inverse", "orient(a);orient(b) != orient(b) or orient(theta0) does not restore",
              a=a, b=b, theta=theta, composed=ok, restored=ok2)
    # ... also with work done in between: orient(a); taper / detrend / trim (the same sample-wise linear step on all three
    # components, so it commutes with the rotation); orient back (theta or theta + 360 k) == the same step without any
    # re-orientation.  The rotation acts on the samples the recording holds NOW.
    r3 = gen.make_recording(ns0, ew0, Z, 0.01, degrees_from_north=theta)
    r4 = gen.make_recording(ns0, ew0, Z, 0.01, degrees_from_north=theta)
    r3.orient_sensor_to(a)
    done = []
    for _ in range(int(rng.integers(1, 3))):
        op = str(rng.choice(["window", "detrend-linear", "detrend-constant", "trim"]))
        for r in (r3, r4):
            if op == "window":
                r.window("tukey", 0.2)
            elif op.startswith("detrend"):
                r.detrend(type=op.split("-")[1])
            elif r.ns.n_samples > 12:
                t = r.ns.time()
                r.trim(float(t[2]), float(t[-4]))
        done.append(op)
    back = theta + 360.0 * float(rng.choice([0, 0, 1, -1]))
    r3.orient_sensor_to(back)
    same_len = r3.ns.n_samples == r4.ns.n_samples == r3.ew.n_samples == r3.vt.n_samples
    ok3 = same_len and bool(np.all(np.abs(r3.ns.amplitude - r4.ns.amplitude) <= tol) and np.all(np.abs(r3.ew.amplitude - r4.ew.amplitude) <= tol))
    ctx.check(ok3, "composition-and-inverse", "orient(a); taper / detrend / trim; orient back differs from the same steps without "
              "re-orientation", a=a, theta=theta, back=back, steps_in_between=done, same_lengths=bool(same_len),
              mechanism="orient-work-orient-back")
    if any(abs((t - theta) % 360) > 1e-6 for t in targets):
        ctx.nontrivial([round(psi, 6), round(theta, 6), [round(t, 6) for t in targets]])
    ctx.state([psi % 90 == 0, theta % 90 == 0, len(targets)])


def run(ctx, arrays, dt, cfg, theta=0.0, orient_to=None):
    import hvsrpy
    rec = gen.make_recording(np.array(arrays[0]), np.array(arrays[1]), np.array(arrays[2]), dt, degrees_from_north=theta)
    if orient_to is not None:
        rec.orient_sensor_to(orient_to)
    st = C01.make_settings(cfg)
    ctx.count("process_calls")
    with np.errstate(all="ignore"):
        res = hvsrpy.process([rec], st)
    if cfg["kind"] == "azimuthal":
        return [np.asarray(h.amplitude)[0] for h in res.hvsrs]
    return np.atleast_2d(np.asarray(res.amplitude))[0]


def nonneg_cfg(rng, dt, n, kind):
    cfg = C01.gen_cfg(rng, dt, n, kind, op=str(rng.choice([o for o in gen.OPERATORS if o != "savitzky_and_golay"])))
    cfg["user_n"] = 2 ** 15
    return cfg


def fam_single_azimuth(ctx, rng):
    dt = float(rng.choice([0.005, 0.01, 0.02]))
    n = int(rng.choice([500, 2000, 8000]))
    arrays = gen.recording_arrays(rng, n, None, amp=gen.scale(rng))
    theta = angle(rng)
    cfg = nonneg_cfg(rng, dt, n, "single")
    a = cfg["azimuth"]
    ctx.describe(dt=dt, n=n, theta=theta, **cfg)
    try:
        base = run(ctx, arrays, dt, cfg, theta)
        cur = theta - 360 * (theta // 360)
        via_orient = run(ctx, arrays, dt, dict(cfg, azimuth=0.0), theta, orient_to=cur + a)
        flipped = run(ctx, arrays, dt, dict(cfg, azimuth=a + 180.0), theta)
    except ValueError:
        ctx.count("process_refused")
        return
    ctx.check(close(base, via_orient, rtol=1e-8), "single-azimuth-equals-oriented-north",
              f"single-azimuth HVSR at {a} deg differs from the HVSR of the north component after orienting the sensor by {a} deg",
              maxrel=maxrel(base, via_orient), azimuth=a, theta=theta, op=cfg["op"])
    ctx.check(close(base, flipped, rtol=1e-8), "azimuth-180-periodic", f"HVSR({a}) != HVSR({a}+180)",
              maxrel=maxrel(base, flipped), azimuth=a, op=cfg["op"])
    ctx.nontrivial(["single", round(a, 6), round(theta, 6), cfg["op"], n])


def fam_azimuthal_stack(ctx, rng):
    dt = float(rng.choice([0.005, 0.01]))
    n = int(rng.choice([500, 2000, 6000]))
    arrays = gen.recording_arrays(rng, n, None, amp=gen.scale(rng))
    cfg = nonneg_cfg(rng, dt, n, "azimuthal")
    k = int(rng.integers(1, 13))
    cfg["azimuths"] = np.sort(rng.choice(np.arange(0, 180.5, 2.5), size=k, replace=False))
    polarised = None
    if rng.random() < 0.3:
        # linearly polarised horizontal motion (a single wave train) along psi; the azimuth set holds the direction
        # perpendicular to it, where the horizontal spectrum is down at rounding level
        psi = float(rng.choice(np.arange(0, 180, 2.5)))
        s0 = np.asarray(arrays[0])
        arrays = [np.cos(np.radians(psi)) * s0, np.sin(np.radians(psi)) * s0, np.asarray(arrays[2])]
        cfg["azimuths"] = np.unique(np.append(cfg["azimuths"], (psi + 90.0) % 180.0))
        k = int(cfg["azimuths"].size)
        polarised = psi
    ctx.describe(dt=dt, n=n, polarised_along=polarised, **cfg)
    try:
        az = run(ctx, arrays, dt, cfg)
        singles = [run(ctx, arrays, dt, dict(cfg, kind="single", method="single_azimuth", azimuth=float(a))) for a in cfg["azimuths"]]
    except ValueError:
        ctx.count("process_refused")
        return
    ok = len(az) == len(singles) and all(biteq(x, y) for x, y in zip(az, singles))
    ctx.check(ok, "azimuthal-is-stack-of-single-azimuths", "an azimuth of the azimuthal result differs from the single-azimuth result",
              maxrel=max(maxrel(x, y) for x, y in zip(az, singles)) if len(az) == len(singles) else None,
              azimuths=cfg["azimuths"], op=cfg["op"])
    # RotDpp against the same azimuths
    # percentiles from both ends of the scale, including values at and below 1 and just under 100
    ps = sorted(float(p) for p in np.concatenate([[0.0, 100.0], rng.uniform(0, 100, 3),
                                                   rng.choice([0.5, 1.0, 2.0, 99.0, 99.5, float(rng.uniform(0, 1))], 2)]))
    try:
        rot = [run(ctx, arrays, dt, dict(cfg, kind="rotdpp", method="rotdpp", percentile=p)) for p in ps]
    except ValueError as e:
        # every azimuth of the set was processed above, so RotDpp over the same azimuths has nothing to refuse
        ctx.check(False, "rotdpp-monotone-and-bounded", f"RotDpp refused ({e}) although every single azimuth of the set was processed",
                  percentiles=ps, azimuths=cfg["azimuths"], op=cfg["op"], polarised_along=polarised)
        return
    A = np.vstack(az)
    lo, hi = A.min(axis=0), A.max(axis=0)
    tol = 1e-9 * np.maximum(hi, 1e-300)
    ok = all(np.all(rot[i + 1] >= rot[i] - tol) for i in range(len(rot) - 1))
    ok = ok and all(np.all(r >= lo - tol) and np.all(r <= hi + tol) for r in rot)
    ok = ok and close(rot[0], lo, rtol=1e-9) and close(rot[-1], hi, rtol=1e-9)
    ctx.check(ok, "rotdpp-monotone-and-bounded", "RotDpp decreases with the percentile or leaves [min,max] over the azimuths",
              percentiles=ps, azimuths=cfg["azimuths"], op=cfg["op"])
    if k >= 2:
        ctx.nontrivial(["stack", k, cfg["op"], round(float(cfg["b"]), 6), n])


def fam_azimuthal_stack_many(ctx, rng):
    """several recordings (mixed time steps, every dissimilar-time-step policy): azimuthal == stack of single azimuths,
    row for row."""
    import hvsrpy
    dts = [float(rng.choice([0.005, 0.01, 0.02])) for _ in range(int(rng.integers(2, 6)))]
    if rng.random() < 0.3:
        dts = [dts[0]] * len(dts)
    n = int(rng.choice([500, 2000, 4000]))
    policy = str(rng.choice(["frequency_domain_resampling", "keeping_smallest_time_step", "keeping_majority_time_step"]))
    cfg = nonneg_cfg(rng, max(dts), n, "azimuthal")
    cfg["policy"] = policy
    k = int(rng.integers(1, 6))
    cfg["azimuths"] = np.sort(rng.choice(np.arange(0, 180.5, 2.5), size=k, replace=False))
    ctx.describe(dts=dts, n=n, **cfg)
    arrays = [gen.recording_arrays(rng, n, None, amp=1.0) for _ in dts]
    thetas = [angle(rng) for _ in dts]

    def records():
        return [gen.make_recording(np.array(a[0]), np.array(a[1]), np.array(a[2]), dt, degrees_from_north=t)
                for a, dt, t in zip(arrays, dts, thetas)]

    def go(c):
        ctx.count("process_calls")
        with warnings.catch_warnings():
            warnings.simplefilter("ignore")
            with np.errstate(all="ignore"):
                return hvsrpy.process(records(), C01.make_settings(c))
    try:
        az = go(cfg)
        singles = [go(dict(cfg, kind="single", method="single_azimuth", azimuth=float(a))) for a in cfg["azimuths"]]
    except ValueError:
        ctx.count("process_refused")
        return
    A = [np.atleast_2d(np.asarray(h.amplitude)) for h in az.hvsrs]
    S = [np.atleast_2d(np.asarray(h.amplitude)) for h in singles]
    ok = len(A) == len(S) and all(x.shape == y.shape and biteq(x, y) for x, y in zip(A, S))
    ctx.check(ok, "azimuthal-is-stack-of-single-azimuths",
              "with several recordings an azimuth of the azimuthal result differs from the single-azimuth result",
              rows_azimuthal=[x.shape[0] for x in A], rows_single=[y.shape[0] for y in S], time_steps=dts, handling=policy,
              azimuths=cfg["azimuths"], op=cfg["op"], mechanism="several-recordings")
    # RotDpp over the same azimuths, recording by recording: bounded by / equal to min and max over the azimuths
    if ok and k >= 1:
        ps = sorted([0.0, 100.0, float(rng.uniform(0, 100))])
        try:
            rot = [np.atleast_2d(np.asarray(go(dict(cfg, kind="rotdpp", method="rotdpp", percentile=p)).amplitude)) for p in ps]
        except ValueError:
            ctx.count("process_refused")
            rot = None
        if rot is not None:
            stack = np.stack(A)                       # azimuth x recording x frequency
            lo, hi = stack.min(axis=0), stack.max(axis=0)
            tol = 1e-9 * np.maximum(hi, 1e-300)
            good = all(r.shape == lo.shape for r in rot)
            good = good and close(rot[0], lo, rtol=1e-9) and close(rot[-1], hi, rtol=1e-9)
            good = good and bool(np.all(rot[1] >= lo - tol) and np.all(rot[1] <= hi + tol))
            ctx.check(good, "rotdpp-monotone-and-bounded", "with several recordings RotDpp leaves [min,max] over the azimuths of "
                      "its own recording (or RotD0 / RotD100 are not the minimum / maximum)", percentiles=ps, time_steps=dts,
                      handling=policy, azimuths=cfg["azimuths"], op=cfg["op"], mechanism="several-recordings")
    if len(set(dts)) > 1:
        ctx.nontrivial(["stack-many", tuple(dts), policy, k, cfg["op"]])
    ctx.state([len(set(dts)), policy])


def fam_azimuthal_stack_unpadded(ctx, rng):
    """fft_settings={'n': None} (no zero padding): the azimuthal result must still be the stack of the single-azimuth
    results obtained with the same settings.  Diagnostic: is a difference explained by nothing but the FFT length that
    the azimuthal call reports afterwards?"""
    import hvsrpy
    dt = float(rng.choice([0.005, 0.01]))
    n = int(rng.choice([500, 2000, 6000]))
    arrays = gen.recording_arrays(rng, n, None, amp=1.0)
    cfg = nonneg_cfg(rng, dt, n, "azimuthal")
    cfg["user_n"] = None
    cfg["fft_n_none"] = True
    k = int(rng.integers(1, 5))
    cfg["azimuths"] = np.sort(rng.choice(np.arange(0, 180.5, 2.5), size=k, replace=False))
    ctx.describe(dt=dt, n=n, **cfg)

    def rec():
        return gen.make_recording(np.array(arrays[0]), np.array(arrays[1]), np.array(arrays[2]), dt)

    def go(st):
        ctx.count("process_calls")
        with np.errstate(all="ignore"):
            return hvsrpy.process([rec()], st)
    try:
        st_az = C01.make_settings(cfg)
        az = [np.asarray(h.amplitude)[0] for h in go(st_az).hvsrs]
        n_reported = st_az.fft_settings.get("n")
        singles, pinned = [], []
        for a in cfg["azimuths"]:
            c1 = dict(cfg, kind="single", method="single_azimuth", azimuth=float(a))
            singles.append(np.asarray(go(C01.make_settings(c1)).amplitude)[0])
            c2 = dict(c1, fft_n_none=False, user_n=int(n_reported))
            pinned.append(np.asarray(go(C01.make_settings(c2)).amplitude)[0])
    except ValueError:
        ctx.count("process_refused")
        return
    ok = all(biteq(x, y) for x, y in zip(az, singles))
    explained = all(biteq(x, y) for x, y in zip(az, pinned)) and n_reported != n
    ctx.check(ok, "azimuthal-is-stack-of-single-azimuths",
              "with fft_settings={'n': None} an azimuth of the azimuthal result differs from the single-azimuth result",
              mechanism="fft-length-none-resolved-again-per-azimuth", explained_by_fft_length_reported_afterwards=bool(explained),
              window_samples=n, fft_length_reported_by_azimuthal_settings=n_reported,
              maxrel=max(maxrel(x, y) for x, y in zip(az, singles)), azimuths=cfg["azimuths"], op=cfg["op"])
    ctx.nontrivial(["stack-unpadded", k, cfg["op"], n])


def fam_invariant(ctx, rng):
    dt = float(rng.choice([0.005, 0.01]))
    n = int(rng.choice([500, 2000, 6000]))
    N, E, Z = gen.recording_arrays(rng, n, None, amp=gen.scale(rng))
    t1, t2 = angle(rng), angle(rng)
    method = str(rng.choice(["squared_average", "quadratic_mean", "root_mean_square", "effective_amplitude_spectrum",
                             "total_horizontal_energy", "vector_summation", "diffuse_field"]))
    kind = "diffuse" if method == "diffuse_field" else "freq"
    cfg = nonneg_cfg(rng, dt, n, kind)
    cfg["method"] = method
    ctx.describe(dt=dt, n=n, theta1=t1, theta2=t2, **cfg)
    a1 = deployed(N, E, t1)
    a2 = deployed(N, E, t2)
    try:
        r1 = run(ctx, (a1[0], a1[1], Z), dt, cfg, t1)
        r2 = run(ctx, (a2[0], a2[1], Z), dt, cfg, t2)
    except ValueError:
        ctx.count("process_refused")
        return
    ctx.check(close(r1, r2, rtol=1e-8), "rotation-invariant-methods", f"{method} depends on the sensor orientation",
              maxrel=maxrel(r1, r2), theta1=t1, theta2=t2, op=cfg["op"])
    # preprocessing's orientation step gives the same recording whatever the deployment angle
    import hvsrpy
    recs = [gen.make_recording(a[0], a[1], Z, dt, degrees_from_north=t) for a, t in ((a1, t1), (a2, t2))]
    tgt = angle(rng)
    pre = hvsrpy.HvsrPreProcessingSettings(orient_to_degrees_from_north=tgt, filter_corner_frequencies_in_hz=[None, None],
                                           window_length_in_seconds=None, detrend="none")
    w = hvsrpy.preprocess(recs, pre)
    sc = float(np.max(np.abs(np.concatenate([N, E])))) + 1e-300
    tol = 1e-9 * sc * (1 + (abs(t1) + abs(t2) + abs(tgt)) / 360)
    ok = len(w) == 2 and bool(np.all(np.abs(w[0].ns.amplitude - w[1].ns.amplitude) <= tol) and
                              np.all(np.abs(w[0].ew.amplitude - w[1].ew.amplitude) <= tol))
    want_ns, want_ew = deployed(N, E, tgt)
    ok = ok and bool(np.all(np.abs(w[0].ns.amplitude - want_ns) <= tol))
    ctx.check(ok, "rotation-matches-ground-truth", "preprocess(orient_to_degrees_from_north) does not bring differently "
              "deployed sensors onto the same axes", theta1=t1, theta2=t2, target=tgt)
    ctx.nontrivial(["invariant", method, round(t1, 6), round(t2, 6), cfg["op"]])


FAMILIES = [("rotation-ground-truth", fam_rotation), ("single-azimuth-relations", fam_single_azimuth),
            ("rotation-ground-truth-2", fam_rotation), ("azimuthal-stack-and-rotdpp", fam_azimuthal_stack),
            ("rotation-invariant-methods", fam_invariant), ("azimuthal-stack-several-recordings", fam_azimuthal_stack_many),
            ("azimuthal-stack-unpadded-fft", fam_azimuthal_stack_unpadded)]
