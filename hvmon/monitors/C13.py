"""C13 - time-domain rejection keeps exactly the windows that satisfy the criterion.

Probes: sta_lta_window_rejection / maximum_value_window_rejection at their boundary: identity (id)
and order of the returned elements, masks of the attached HVSR object before/after, bit-exact
snapshots of the recordings.  Oracles: models/stalta.py (clearly-keep / clearly-reject / ambiguous),
the closed form for the maximum-value criterion, and relations between executions of the real code
(alone vs in a list, rescaling, widening the limits, conjunction over components).
"""

import numpy as np

from .. import gen, snap
from ..models import stalta as MS

PROPERTY = "C13"
NUM = 13
RULE = ("cases = 1-40 windows of 200-6000 samples (noise with injected transients / quiet gaps of random position and "
        "amplitude so that ratios fall on both sides of the limits by wide and narrow margins), dt in {0.004,0.005,0.01,"
        "0.02,1/75}, STA/LTA lengths up to the window length, random limits, all 7 component subsets, no object / "
        "HvsrTraditional / HvsrAzimuthal (1-5 azimuths) attached; maximum-value thresholds normalised and absolute, also "
        "exactly at a window's value; non-trivial = both kept and rejected windows occur; distinct = (function, n windows, "
        "dt, lengths, limits, components, attached kind, keep vector) signatures")
ASSUMPTIONS = [
    "seconds -> samples conversion: round/floor of seconds/dt and one less are all admissible (1//0.01 is 99.0 in floating point)",
    "a window is judged against the model only when it is clearly kept or clearly rejected (1 % margin under every admissible reading)",
    "accept masks: window mask == selection on every azimuth; peak mask == selection restricted to windows that have a peak",
]
NOT_REACHED = ["STA/LTA lengths longer than the window (refused with IndexError)", "more than 40 windows"]
BUDGET = {"quick": dict(cases=4000, seconds=60, shards=4),
          "thorough": dict(cases=240000, seconds=600, shards=16)}
REQUIRED = ["mon:returned-are-same-objects-in-order", "mon:clearly-keep-kept", "mon:clearly-reject-rejected",
            "mon:masks-equal-selection", "mon:alone-equals-in-list", "mon:rescaling-invariant", "mon:widening-monotone",
            "mon:components-conjunctive", "mon:maximum-value-criterion", "mon:recordings-unchanged"]

COMPS = [("ns",), ("ew",), ("vt",), ("ns", "ew"), ("ns", "vt"), ("ew", "vt"), ("ns", "ew", "vt")]


def gen_windows(rng, k, n, dt):
    items = []
    for _ in range(k):
        arrs = []
        for c in range(3):
            x = rng.standard_normal(n) * float(rng.uniform(0.5, 2))
            r = rng.random()
            if r < 0.25:          # transient
                p = int(rng.integers(0, n))
                w = int(rng.integers(1, max(2, n // 20)))
                x[p:p + w] *= float(10 ** rng.uniform(0.2, 2))
            elif r < 0.4:         # quiet gap
                p = int(rng.integers(0, n))
                w = int(rng.integers(n // 20 + 1, n // 4 + 2))
                x[p:p + w] *= float(10 ** rng.uniform(-3, -0.3))
            arrs.append(x)
        items.append(arrs)
    return items


def build(items, dt, scale=1.0):
    return [gen.make_recording(a[0] * scale, a[1] * scale, a[2] * scale, dt) for a in items]


def attach(rng, k):
    import hvsrpy
    kind = str(rng.choice(["none", "traditional", "azimuthal"]))
    if kind == "none":
        return None, kind
    f = np.geomspace(0.2, 20, 24)

    def trad():
        amp = 1 + rng.uniform(1, 4, (k, 1)) * np.exp(-0.5 * ((np.log(f)[None, :] - rng.uniform(-0.5, 2, (k, 1))) / 0.3) ** 2)
        if rng.random() < 0.3:
            amp[int(rng.integers(0, k))] = np.linspace(1, 2, f.size)     # a window without a peak
        return hvsrpy.HvsrTraditional(f, amp)
    if kind == "traditional":
        return trad(), kind
    naz = int(rng.integers(1, 6))
    return hvsrpy.HvsrAzimuthal([trad() for _ in range(naz)], list(np.linspace(0, 150, naz))), kind


def pre_reject(rng, hv):
    """Half of the attached objects already carry rejected windows (manual rejection / an earlier rejection pass) when
    they are handed to the time-domain rejection: the masks afterwards must be the NEW selection, nothing else."""
    import hvsrpy
    if hv is None or rng.random() < 0.5:
        return False
    hs = hv.hvsrs if isinstance(hv, hvsrpy.HvsrAzimuthal) else [hv]
    if rng.random() < 0.4:
        # the object's past is an earlier time-domain pass (other recordings / limits, same object handed along), after
        # which the analyst narrowed the search range - some windows may have lost their peak by then
        from .. import histories
        histories.step_time_domain(rng, hv, hs[0].n_curves)
        hv.update_peaks_bounded(search_range_in_hz=histories.rand_range(rng, hs[0].frequency))
        return True
    for h in hs:
        for i in range(h.n_curves):
            if rng.random() < 0.3:
                h.valid_window_boolean_mask[i] = False
                h.valid_peak_boolean_mask[i] = False
    return True


def check_masks(ctx, hv, keep, info):
    import hvsrpy
    if hv is None:
        return
    hs = hv.hvsrs if isinstance(hv, hvsrpy.HvsrAzimuthal) else [hv]
    ok = all(np.array_equal(np.asarray(h.valid_window_boolean_mask), keep) for h in hs)
    okp = all(np.array_equal(np.asarray(h.valid_peak_boolean_mask), keep & ~np.isnan(h._main_peak_frq)) for h in hs)
    okt = all(np.asarray(h.valid_window_boolean_mask).dtype == bool for h in hs)
    ctx.check(ok and okp and okt, "masks-equal-selection", "accept masks of the attached object differ from the selection",
              window_masks_ok=ok, peak_masks_ok=okp, keep=keep.astype(int), n_azimuths=len(hs), **info)


def fam_stalta(ctx, rng):
    import hvsrpy
    k = int(rng.choice([1, 2, 5, 10, 20, 40]))
    dt = float(rng.choice([0.004, 0.005, 0.01, 0.02, 1 / 75]))
    n = int(rng.choice([200, 500, 1500, 3000, 6000]))
    T = (n - 1) * dt
    sta = float(rng.choice([T / 40, T / 20, T / 10, T / 5, float(rng.uniform(2 * dt, T / 2))]))
    sta = max(sta, 2.5 * dt)
    lta = float(rng.choice([T * 0.999, T / 2, T / 4, float(rng.uniform(sta, T))]))
    lo = float(rng.choice([0.05, 0.2, 0.5, 0.7]))
    hi = float(rng.choice([1.5, 2.5, 4.0, 8.0]))
    comps = COMPS[int(rng.integers(0, 7))]
    if rng.random() < 0.3:
        comps = list(comps)                      # list / tuple forms of the components argument
    items = gen_windows(rng, k, n, dt)
    hv, akind = attach(rng, k)
    if pre_reject(rng, hv):
        akind += "+earlier-rejections"
    # the amplitude unit is arbitrary (counts, nm/s, m/s, m: down to 1e-12 and below); ratios do not depend on it
    unit = float(rng.choice([1.0, 1.0, 1e3, 1e-6, 1e-9, 1e-12]))
    info = dict(k=k, dt=dt, n=n, sta=sta, lta=lta, lo=lo, hi=hi, components=list(comps), attached=akind, amplitude_unit=unit)
    ctx.describe(**info)
    recs = build(items, dt, unit)
    before = snap.snap(recs)
    kw = dict(sta_seconds=sta, lta_seconds=lta, min_sta_lta_ratio=lo, max_sta_lta_ratio=hi, components=comps)
    kw_call, recs_call = kw, recs
    if rng.random() < 0.3:
        # the windows as a tuple, the limits as other numeric types holding the same values
        types = ["float", "float64", "zero-dim-array", "int", "int64"]
        kw_call = dict(kw, **{k_: gen.scalar_form(rng, kw[k_], allow=types)[0] for k_ in ("sta_seconds", "lta_seconds", "min_sta_lta_ratio", "max_sta_lta_ratio")})
        recs_call = tuple(recs) if rng.random() < 0.6 else recs
        ctx.count("calls_with_arguments_in_other_forms")
    out = hvsrpy.sta_lta_window_rejection(recs_call, hvsr=hv, **kw_call)
    ctx.count("rejection_calls")
    ctx.check(snap.snap(recs) == before, "recordings-unchanged", "sta_lta_window_rejection modified the windows", **info)
    ids = [id(r) for r in recs]
    pos = [ids.index(id(o)) if id(o) in ids else -1 for o in out]
    ctx.check(all(p >= 0 for p in pos) and pos == sorted(pos) and len(set(pos)) == len(pos),
              "returned-are-same-objects-in-order", "returned list is not a sub-sequence of the same objects", positions=pos, **info)
    keep = np.zeros(k, dtype=bool)
    keep[[p for p in pos if p >= 0]] = True
    check_masks(ctx, hv, keep, info)
    # model classification
    n_judged = 0
    for i, arrs in enumerate(items):
        cls = [MS.classify(arrs["ns ew vt".split().index(c)], dt, sta, lta, lo, hi) for c in comps]
        if all(c == "keep" for c in cls):
            n_judged += 1
            ctx.check(bool(keep[i]), "clearly-keep-kept", f"window {i} has all STA/LTA ratios clearly inside the limits but was rejected",
                      window=i, **info)
        elif any(c == "reject" for c in cls):
            n_judged += 1
            ctx.check(not keep[i], "clearly-reject-rejected", f"window {i} has an STA/LTA ratio clearly outside the limits but was kept",
                      window=i, **info)
        else:
            ctx.count("ambiguous_windows")
    ctx.count("windows_judged_by_model", n_judged)
    # relations on the real code
    i = int(rng.integers(0, k))
    alone = hvsrpy.sta_lta_window_rejection(build([items[i]], dt), **kw)
    ctx.check((len(alone) == 1) == bool(keep[i]), "alone-equals-in-list", f"window {i}: decision alone differs from decision in the list",
              window=i, alone=len(alone), in_list=bool(keep[i]), **info)
    sc = float(2.0 ** rng.integers(-20, 21))
    outs = hvsrpy.sta_lta_window_rejection(build(items, dt, sc), **kw)
    ctx.check(len(outs) == int(keep.sum()), "rescaling-invariant", f"decisions change when all amplitudes are multiplied by {sc}",
              kept=int(keep.sum()), kept_scaled=len(outs), **info)
    wide = dict(kw, min_sta_lta_ratio=lo * float(rng.uniform(0.3, 1.0)), max_sta_lta_ratio=hi * float(rng.uniform(1.0, 3.0)))
    r2 = build(items, dt)
    outw = hvsrpy.sta_lta_window_rejection(r2, **wide)
    keepw = np.array([any(o is r for o in outw) for r in r2])
    ctx.check(not np.any(keep & ~keepw), "widening-monotone", "widening the limits turned a kept window into a rejected one",
              keep=keep.astype(int), keep_wide=keepw.astype(int), **info)
    if len(comps) > 1:
        conj = np.ones(k, dtype=bool)
        for c in comps:
            r3 = build(items, dt)
            oc = hvsrpy.sta_lta_window_rejection(r3, **dict(kw, components=(c,)))
            conj &= np.array([any(o is r for o in oc) for r in r3])
        ctx.check(np.array_equal(conj, keep), "components-conjunctive", "examining several components is not the conjunction "
                  "of examining each", keep=keep.astype(int), conjunction=conj.astype(int), **info)
    if keep.any() and (~keep).any():
        ctx.nontrivial(["stalta", k, dt, n, round(sta, 6), round(lta, 6), lo, hi, list(comps), akind, keep.tolist()])
    ctx.state(["stalta", akind, len(comps), bool(keep.all()), bool((~keep).all())])


def fam_maxvalue(ctx, rng):
    import hvsrpy
    k = int(rng.choice([1, 2, 5, 10, 20, 40]))
    dt = 0.01
    n = int(rng.choice([200, 1000]))
    comps = COMPS[int(rng.integers(0, 7))]
    items = gen_windows(rng, k, n, dt)
    amp_scale = float(10 ** rng.uniform(-13, 3))          # absolute thresholds must work for any amplitude unit
    items = [[a * amp_scale for a in arrs] for arrs in items]
    idx = ["ns", "ew", "vt"]
    maxima = np.array([max(np.max(np.abs(a[idx.index(c)])) for c in comps) for a in items])
    normalized = bool(rng.random() < 0.5)
    vals = maxima / maxima.max() if normalized else maxima
    mode = str(rng.choice(["random", "at-value", "quantile"]))
    if mode == "random":
        thr = float(rng.uniform(vals.min() * 0.5, vals.max() * 1.2))
    elif mode == "at-value":
        thr = float(vals[int(rng.integers(0, k))])
    else:
        thr = float(np.quantile(vals, rng.uniform(0.1, 0.9)))
    hv, akind = attach(rng, k)
    if pre_reject(rng, hv):
        akind += "+earlier-rejections"
    info = dict(k=k, n=n, components=list(comps), normalized=normalized, threshold=thr, mode=mode, attached=akind)
    ctx.describe(**info)
    recs = build(items, dt)
    before = snap.snap(recs)
    thr_call, recs_call, norm_call = thr, recs, normalized
    if rng.random() < 0.3:
        thr_call = gen.scalar_form(rng, thr, allow=["float", "float64", "zero-dim-array"])[0]
        recs_call = tuple(recs) if rng.random() < 0.6 else recs
        norm_call = np.bool_(normalized) if rng.random() < 0.5 else int(normalized)       # truthy / falsy flags of other types
        ctx.count("calls_with_arguments_in_other_forms")
    out = hvsrpy.maximum_value_window_rejection(recs_call, maximum_value_threshold=thr_call, normalized=norm_call, components=comps, hvsr=hv)
    ctx.count("rejection_calls")
    ctx.check(snap.snap(recs) == before, "recordings-unchanged", "maximum_value_window_rejection modified the windows", **info)
    ids = [id(r) for r in recs]
    pos = [ids.index(id(o)) if id(o) in ids else -1 for o in out]
    ctx.check(all(p >= 0 for p in pos) and pos == sorted(pos) and len(set(pos)) == len(pos),
              "returned-are-same-objects-in-order", "returned list is not a sub-sequence of the same objects", positions=pos, **info)
    keep = np.zeros(k, dtype=bool)
    keep[[p for p in pos if p >= 0]] = True
    check_masks(ctx, hv, keep, info)
    want = vals < thr
    # values within 1e-12 (relative) of the threshold but not bit-equal to it are ambiguous (division rounding)
    amb = (np.abs(vals - thr) <= 1e-12 * max(abs(thr), 1e-300)) & (vals != thr)
    judged = ~amb
    ctx.count("ambiguous_windows", int(amb.sum()))
    ctx.check(np.array_equal(keep[judged], want[judged]), "maximum-value-criterion",
              "kept set differs from {max|x| (relative to the overall max when normalised) < threshold}",
              keep=keep.astype(int), want=want.astype(int), values=vals, **info)
    if keep.any() and (~keep).any():
        ctx.nontrivial(["maxvalue", k, n, list(comps), normalized, mode, akind, keep.tolist()])
    ctx.state(["maxvalue", akind, normalized, mode])


FAMILIES = [("sta-lta", fam_stalta), ("maximum-value", fam_maxvalue), ("sta-lta-2", fam_stalta)]
