"""C15 - settings round-trip through files and are independent of one another.

Probes: Settings.save/load, read_settings_object_from_file, the eight constructors, process/preprocess.
Oracle: a shadow model of every live settings object (the content the history *should* have given it),
compared after every step of a random history of constructing, mutating (in place and by assignment),
saving, loading and dispatch-reading; a pristine snapshot of each class's defaults taken before any
mutation; the alias walker + poke over pairs of live objects; bit-equal processing with reloaded
settings.
"""

import copy
import os
import tempfile

import numpy as np

from .. import gen, snap

PROPERTY = "C15"
NUM = 15
RULE = ("cases = histories of 3-12 steps over a pool of settings objects of all eight classes: construct (defaults / explicit "
        "values drawn per attribute type: arrays, lists, tuples, None, numbers, strings, dicts), mutate in place (list element, "
        "dict entry, array element; also of a value the caller once handed to a constructor), construct a second object from the same argument objects, assign an attribute, save, load into a fresh object or into one already holding other explicit values, dispatch-read, process/preprocess "
        "with original and reloaded settings; non-trivial = the history holds an in-place mutation followed by a later "
        "construction, or a save/load of explicit values; distinct = (class sequence, step kinds) signatures")
ASSUMPTIONS = [
    "content equality after normalising tuple/list/ndarray to lists and numpy scalars to Python scalars (JSON cannot keep the container type)",
    "instrument_transfer_function objects are not serialisable and are not generated",
]
NOT_REACHED = ["instrument_transfer_function objects", "attribute values that are not JSON serialisable"]
BUDGET = {"quick": dict(cases=600, seconds=60, shards=4),
          "thorough": dict(cases=30000, seconds=600, shards=16)}
REQUIRED = ["mon:reload-equals-original", "mon:dispatch-reader-same-class", "mon:objects-match-shadow-model",
            "mon:fresh-defaults-pristine", "mon:no-shared-mutable-state", "mon:processing-with-reloaded-settings-identical"]

CLASSES = ["HvsrPreProcessingSettings", "PsdPreProcessingSettings", "PsdProcessingSettings",
           "HvsrTraditionalProcessingSettings", "HvsrTraditionalSingleAzimuthProcessingSettings",
           "HvsrTraditionalRotDppProcessingSettings", "HvsrAzimuthalProcessingSettings",
           "HvsrDiffuseFieldProcessingSettings"]
PRISTINE = {}


def content(st):
    return snap.norm({a: getattr(st, a) for a in st.attrs})


def setup(ctx):
    import hvsrpy
    for c in CLASSES:
        PRISTINE[c] = content(getattr(hvsrpy, c)())
    ctx.count("pristine_default_snapshots", len(PRISTINE))


def seq(rng, values):
    k = rng.random()
    if k < 0.08 and all(isinstance(v, (int, float)) for v in values):
        import pandas as pd
        return pd.Series(list(values), dtype=float)          # a column of a table: an iterable of floats like any other
    if k < 0.34:
        return list(values)
    if k < 0.67:
        return tuple(values)
    return np.array(values, dtype=float) if all(isinstance(v, (int, float)) for v in values) else list(values)


def gen_value(rng, attr):
    if attr == "window_type_and_width":
        w = ["tukey", float(rng.choice([0.0, 0.05, 0.1, 0.2, 0.5]))]
        return w if rng.random() < 0.5 else tuple(w)
    if attr == "smoothing":
        op = gen.OPERATORS[int(rng.integers(0, 7))]
        nfc = int(rng.integers(3, 12)) if rng.random() > 0.04 else int(rng.choice([1001, 2048, 4097]))     # also dense grids
        fcs = np.geomspace(float(rng.uniform(0.2, 1)), float(rng.uniform(5, 20)), nfc)
        return dict(operator=op, bandwidth=gen.bandwidth(rng, op, 50.0), center_frequencies_in_hz=seq(rng, [float(x) for x in fcs]))
    if attr == "fft_settings":
        k = rng.random()
        if k < 0.4:
            return None
        if k < 0.75:
            return dict(n=int(2 ** rng.integers(15, 18)))
        if k < 0.88:        # a dict need not name the length: every np.fft.rfft keyword is legal
            return dict(norm=str(rng.choice(["backward", "ortho", "forward"])))
        return dict(n=int(2 ** rng.integers(15, 18)), norm=str(rng.choice(["backward", "ortho"])))
    if attr == "handle_dissimilar_time_steps_by":
        return str(rng.choice(["frequency_domain_resampling", "keeping_smallest_time_step", "keeping_majority_time_step"]))
    if attr == "method_to_combine_horizontals":
        return str(rng.choice(gen.FREQ_METHODS))
    if attr == "azimuth_in_degrees":
        return float(rng.uniform(0, 180))
    if attr == "ppth_percentile_for_rotdpp_computation":
        return float(rng.uniform(0, 100))
    if attr == "azimuths_in_degrees":
        naz = int(rng.integers(1, 6)) if rng.random() > 0.03 else int(rng.choice([360, 1100]))           # also dense sweeps
        return seq(rng, [float(x) for x in np.sort(rng.uniform(0, 180, naz))])
    if attr == "orient_to_degrees_from_north":
        return None if rng.random() < 0.3 else float(rng.uniform(0, 360))
    if attr == "filter_corner_frequencies_in_hz":
        v = [(None, None), (0.2, None), (None, 20.0), (0.3, 15.0)][int(rng.integers(0, 4))]
        return list(v) if rng.random() < 0.5 else tuple(v)
    if attr == "window_length_in_seconds":
        return None if rng.random() < 0.2 else float(rng.choice([1.0, 2.0, 5.0]))
    if attr == "detrend":
        return [None, "none", "linear", "constant"][int(rng.integers(0, 4))]
    if attr in ("ignore_dissimilar_time_step_warning", "differentiate"):
        return bool(rng.random() < 0.5)
    raise KeyError(attr)


FIXED = {"hvsrpy_version", "processing_method", "preprocessing_method", "instrument_transfer_function"}


def construct(rng, cname, explicit):
    import hvsrpy
    cls = getattr(hvsrpy, cname)
    if not explicit:
        return cls(), {}
    probe_obj = cls.__new__(cls)
    import inspect
    params = [p for p in inspect.signature(cls.__init__).parameters if p != "self"]
    kw = {}
    for p in params:
        if p in FIXED:
            continue
        if cname in ("HvsrTraditionalSingleAzimuthProcessingSettings", "HvsrTraditionalRotDppProcessingSettings") and p == "method_to_combine_horizontals":
            continue
        if rng.random() < 0.7:
            kw[p] = gen_value(rng, p)
    return cls(**kw), kw            # the caller's own argument objects go in: the object must not keep them


def mutate_in_place(rng, st):
    """Returns a description, or None when the object holds nothing mutable."""
    cands = []
    for a in st.attrs:
        v = getattr(st, a)
        if isinstance(v, list) and v:
            cands.append((a, "list"))
        elif isinstance(v, np.ndarray) and v.size:
            cands.append((a, "array"))
        elif isinstance(v, dict):
            cands.append((a, "dict"))
    if not cands:
        return None
    a, k = cands[int(rng.integers(0, len(cands)))]
    v = getattr(st, a)
    if k == "list":
        i = int(rng.integers(0, len(v)))
        v[i] = 0.77 if not isinstance(v[i], str) else "tukey"
        if a == "window_type_and_width":
            v[1] = float(rng.choice([0.33, 0.66, 0.9]))
        return f"{a}[{i}] (list element)"
    if k == "array":
        v[0] = float(rng.uniform(0, 170))
        return f"{a}[0] (array element)"
    keys = list(v.keys())
    key = keys[int(rng.integers(0, len(keys)))]
    inner = v[key]
    if isinstance(inner, np.ndarray) and inner.size:
        inner[0] = inner[0] * 1.01 + 0.001
        return f"{a}[{key!r}][0] (array inside dict)"
    if isinstance(inner, list) and inner:
        inner[0] = inner[0] * 1.01 + 0.001 if isinstance(inner[0], float) else inner[0]
        return f"{a}[{key!r}][0] (list inside dict)"
    if key == "bandwidth" and v.get("operator") != "savitzky_and_golay":
        v[key] = float(v[key]) * 1.5
    elif key == "n":
        v[key] = int(v[key]) * 2
    else:
        v["extra_note"] = "x"
    return f"{a}[{key!r}] (dict entry)"


def edit_argument(leaf):
    """In-place edit of a value the caller owns that keeps it a legal argument (a number changes, types stay)."""
    if isinstance(leaf, np.ndarray):
        if leaf.size and leaf.dtype.kind == "f":
            leaf.flat[0] = leaf.flat[0] * 1.01 + 0.125
            return True
        return False
    if isinstance(leaf, list):
        for i, v in enumerate(leaf):
            if isinstance(v, float):
                leaf[i] = v * 1.01 + 0.125 if v > 1 else min(0.9, v + 0.05)
                return True
        return False
    if isinstance(leaf, dict):
        if isinstance(leaf.get("n"), int):
            leaf["n"] = leaf["n"] * 2
            return True
        if isinstance(leaf.get("bandwidth"), float) and leaf.get("operator") != "savitzky_and_golay":
            leaf["bandwidth"] = leaf["bandwidth"] * 1.5
            return True
    return False


def check_pool(ctx, pool, shadow, step, info):
    bad = []
    for i, st in enumerate(pool):
        got = content(st)
        if got != shadow[i]:
            d = snap.diff(snap.snap(shadow[i]), snap.snap(got))
            bad.append((i, type(st).__name__, d[:3]))
    ctx.check(not bad, "objects-match-shadow-model", f"after step {step}: a settings object changed although the history did not "
              "touch it (or did not end up with the content it was given)", objects=bad[:3], **info)
    return not bad


def usable_for_processing(st):
    c = content(st)
    if "smoothing" in c and c["smoothing"] is None:
        return False
    return True


def run_with(ctx, st):
    """A small deterministic workload; returns a bit-exact snapshot of the result (or the error type)."""
    import hvsrpy
    r = np.random.default_rng(12345)
    recs = [gen.make_recording(*[r.standard_normal(700) for _ in range(3)], 0.01) for _ in range(3)]
    st = copy.deepcopy(st)
    try:
        with np.errstate(all="ignore"):
            import warnings
            with warnings.catch_warnings():
                warnings.simplefilter("ignore")
                if hasattr(st, "preprocessing_method"):
                    out = hvsrpy.preprocess(recs, st)
                    return snap.snap([[w.ns.amplitude, w.ew.amplitude, w.vt.amplitude] for w in out])
                out = hvsrpy.process(recs, st)
    except Exception as e:
        return ("raises", type(e).__name__)
    from .C09 import result_numeric
    return snap.snap(result_numeric(out))


def fam_history(ctx, rng):
    import hvsrpy
    pool, shadow, names, kinds = [], [], [], []
    d = tempfile.mkdtemp(prefix="c15-", dir=os.environ.get("HVMON_SCRATCH"))
    files = []
    mutated_before_construct = False
    kept_args = []
    saw_mutation = False
    explicit_roundtrip = False
    try:
        nsteps = int(rng.integers(3, 13))
        for step in range(nsteps):
            op = str(rng.choice(["construct-default", "construct-explicit", "mutate", "assign", "save-load", "dispatch", "process",
                                 "construct-from-same-arguments", "edit-constructor-argument"]))
            if op in ("construct-from-same-arguments", "edit-constructor-argument") and not kept_args:
                op = "construct-explicit"
            if not pool:
                op = "construct-explicit" if rng.random() < 0.5 else "construct-default"
            info = dict(step=step, op=op, classes=names[-4:], kinds=kinds[-6:])
            if op == "edit-constructor-argument":
                # the caller goes on using (and editing in place) a value it once handed to a constructor
                cname_, kw_ = kept_args[int(rng.integers(0, len(kept_args)))]
                leaves = [v for v in kw_.values() if isinstance(v, (list, dict, np.ndarray))]
                leaves += [x for v in kw_.values() if isinstance(v, dict) for x in v.values() if isinstance(x, (list, np.ndarray))]
                if not leaves or not edit_argument(leaves[int(rng.integers(0, len(leaves)))]):
                    continue
                saw_mutation = True
                info["edited_argument_of"] = cname_
            elif op.startswith("construct"):
                cname = CLASSES[int(rng.integers(0, len(CLASSES)))]
                if op == "construct-from-same-arguments":
                    # a second object of the same class from the very same argument objects
                    cname, kw = kept_args[int(rng.integers(0, len(kept_args)))]
                    kw_now = snap.norm(kw)                    # (the caller may have edited them since)
                    st = getattr(hvsrpy, cname)(**kw)
                else:
                    st, kw = construct(rng, cname, op == "construct-explicit")
                    kw_now = snap.norm(kw)
                    if kw:
                        kept_args.append((cname, kw))
                want = copy.deepcopy(PRISTINE[cname])
                for k, v in kw_now.items():
                    want[k] = v
                pool.append(st)
                shadow.append(want)
                names.append(cname)
                if op == "construct-default":
                    ok = content(st) == PRISTINE[cname]
                    ctx.check(ok, "fresh-defaults-pristine", f"a freshly constructed {cname}() does not have the pristine defaults",
                              differences=snap.diff(snap.snap(PRISTINE[cname]), snap.snap(content(st)))[:4],
                              after_in_place_mutation_of_another_object=saw_mutation, **info)
                    mutated_before_construct = mutated_before_construct or saw_mutation
            elif op == "mutate":
                i = int(rng.integers(0, len(pool)))
                desc = mutate_in_place(rng, pool[i])
                if desc is None:
                    continue
                shadow[i] = content(pool[i])        # the mutated object itself is what the user made it
                saw_mutation = True
                info["mutated"] = f"{names[i]}.{desc}"
            elif op == "assign":
                i = int(rng.integers(0, len(pool)))
                attrs = [a for a in pool[i].attrs if a not in FIXED and not (a == "method_to_combine_horizontals" and "Azimuth" in names[i] or a == "method_to_combine_horizontals" and "RotDpp" in names[i])]
                a = attrs[int(rng.integers(0, len(attrs)))]
                v = gen_value(rng, a)
                if a == "smoothing" and names[i] == "PsdProcessingSettings" and rng.random() < 0.3:
                    v = None
                setattr(pool[i], a, copy.deepcopy(v))
                shadow[i][a] = snap.norm(v)
                info["assigned"] = f"{names[i]}.{a}"
            elif op in ("save-load", "dispatch"):
                i = int(rng.integers(0, len(pool)))
                path = os.path.join(d, f"s{step}.json")
                files.append(path)
                before = snap.snap(pool[i])
                import pathlib
                path_arg = pathlib.Path(path) if rng.random() < 0.3 else path
                pool[i].save(path_arg)
                ctx.check(snap.snap(pool[i]) == before, "save-leaves-object-unchanged", "save() changed the settings object", **info)
                if op == "save-load":
                    if rng.random() < 0.5:
                        new = getattr(hvsrpy, names[i])()
                        info["load_target"] = "fresh default object"
                    else:               # re-configuring an object that already holds other explicit values
                        new, _ = construct(rng, names[i], True)
                        info["load_target"] = "object holding other explicit values"
                    new.load(path_arg)
                else:
                    new = hvsrpy.read_settings_object_from_file(path_arg)
                    ctx.check(type(new) is type(pool[i]), "dispatch-reader-same-class",
                              f"read_settings_object_from_file returned {type(new).__name__} for a {names[i]}", **info)
                ok = type(new) is type(pool[i]) and content(new) == content(pool[i])
                ctx.check(ok, "reload-equals-original", "reloaded settings differ in content from the saved object",
                          differences=snap.diff(snap.snap(content(pool[i])), snap.snap(content(new)))[:4], cls=names[i], **info)
                if usable_for_processing(pool[i]) and rng.random() < 0.5:
                    a, b = run_with(ctx, pool[i]), run_with(ctx, new)
                    ctx.check(a == b, "processing-with-reloaded-settings-identical", "processing with the reloaded settings gives a "
                              "different result", cls=names[i], differences=(snap.diff(a, b)[:3] if not (isinstance(a, tuple) and a and a[0] == "raises") and not (isinstance(b, tuple) and b and b[0] == "raises") else [str(a)[:80], str(b)[:80]]), **info)
                if any(snap.norm(getattr(pool[i], x)) != PRISTINE[names[i]].get(x) for x in pool[i].attrs):
                    explicit_roundtrip = True
                pool.append(new)
                shadow.append(content(pool[i]))
                names.append(type(new).__name__)
            elif op == "process":
                i = int(rng.integers(0, len(pool)))
                if usable_for_processing(pool[i]):
                    run_with(ctx, pool[i])      # works on a deep copy; must not disturb anything in the pool
            kinds.append(op)
            check_pool(ctx, pool, shadow, step, info)
        # alias walker over all pairs of live objects: every channel proven by poking is a violation
        proven = []
        for i in range(len(pool)):
            for j in range(i + 1, len(pool)):
                for pa, pb, how in snap.aliases(pool[i], pool[j])[:4]:
                    leaf = dict(snap.mutable_leaves(pool[i]))[pa]
                    before = snap.snap(pool[j])
                    undo = snap.poke(leaf)
                    if undo is None:
                        continue
                    changed = snap.snap(pool[j]) != before
                    undo()
                    if changed:
                        proven.append((names[i] + pa, names[j] + pb, how))
        ctx.check(not proven, "no-shared-mutable-state", "two settings objects share mutable state (proven by poking one and "
                  "observing the other)", channels=proven[:4], classes=names)
    finally:
        for p in files:
            if os.path.exists(p):
                os.remove(p)
        os.rmdir(d)
    ctx.describe(classes=names, steps=kinds)
    if mutated_before_construct or explicit_roundtrip:
        ctx.nontrivial([names, kinds])
    ctx.state(kinds[:5])


def fam_defaults_after_mutation(ctx, rng):
    """Mutate every mutable attribute of a default-constructed object in place, then construct again."""
    import hvsrpy
    cname = CLASSES[int(rng.integers(0, len(CLASSES)))]
    cls = getattr(hvsrpy, cname)
    a = cls()
    descs = []
    for _ in range(6):
        dsc = mutate_in_place(rng, a)
        if dsc:
            descs.append(dsc)
    b = cls()
    ok = content(b) == PRISTINE[cname]
    ctx.describe(cls=cname, mutations=descs)
    ctx.check(ok, "fresh-defaults-pristine", f"in-place changes to one {cname} changed the defaults of the next one",
              differences=snap.diff(snap.snap(PRISTINE[cname]), snap.snap(content(b)))[:4], mutations=descs,
              after_in_place_mutation_of_another_object=True)
    # repair the class defaults for the rest of this process so that one defect is not reported by every later case
    ctx.nontrivial([cname, descs])


FAMILIES = [("history", fam_history), ("defaults-after-in-place-mutation", fam_defaults_after_mutation), ("history-2", fam_history)]
