"""C11 - azimuthal statistics give every azimuth equal weight (Cheng et al. 2020).

Events: every statistic accessor of HvsrAzimuthal after every step of a history of per-azimuth mask
edits, FDWRA runs on the azimuthal object, range updates and time-domain rejections.
Oracles: models/stats.py weighted estimators (w = 1/(n_az * n_accepted(az))), reductions on the real
code (one azimuth == traditional; equal accepted counts == unweighted pooled statistic; azimuth
permutation; poisoning of rejected rows).
"""

import copy

import numpy as np

from .. import gen, histories
from ..ctx import biteq, close
from ..models import stats as MS
from ..models.peaks import Oracle
from .C05 import same_value

PROPERTY = "C11"
NUM = 11
RULE = ("cases = azimuthal result with 1-8 azimuths (one history case in 25: 10-30, the spacing of a routine sweep; two dense sweeps of 36/45 per run) x 2-15 windows per azimuth (equal or unequal counts) and a history of "
        "0-5 steps over {range update, FDWRA on the azimuthal object, time-domain rejection, manual per-azimuth rejection}; "
        "every state with >= 1 accepted window holding a peak on every azimuth (>= 2 in total) is judged for both "
        "distributions; non-trivial = unequal accepted counts across azimuths; distinct = (n azimuths, window counts, step "
        "kinds, accepted counts) signatures")
ASSUMPTIONS = [
    "cached per-window peaks are taken from the object (C08 judges them)",
    "curve statistics weight the accepted windows (window mask), resonance statistics the accepted windows that hold a peak",
]
NOT_REACHED = ["azimuths without any accepted window", "more than 45 azimuths"]
BUDGET = {"quick": dict(cases=700, seconds=60, shards=4),
          "thorough": dict(cases=16000, seconds=600, shards=16)}
REQUIRED = ["mon:weighted-estimator", "mon:variance-on-covariance-diagonal", "mon:single-azimuth-equals-traditional",
            "mon:equal-counts-equals-pooled", "mon:azimuth-order-invariant", "mon:poisoned-rejected-rows-bit-identical",
            "mon:mean-curve-peak"]

NAMES = ["mean_fn_frequency", "std_fn_frequency", "mean_fn_amplitude", "std_fn_amplitude", "cov_fn", "mean_curve",
         "std_curve", "mean_curve_peak"]


def accessors(h, dist, ns=(1.0, -2.0)):
    out = {}

    def grab(name, fn):
        try:
            with np.errstate(all="ignore"):
                out[name] = fn()
        except Exception as e:
            out[name] = ("raises", type(e).__name__, str(e)[:80])
    for nm in NAMES:
        grab(nm, lambda nm=nm: getattr(h, nm)(dist))
    for n in ns:
        grab(f"nth_std_fn_frequency({n})", lambda n=n: h.nth_std_fn_frequency(n, dist))
        grab(f"nth_std_fn_amplitude({n})", lambda n=n: h.nth_std_fn_amplitude(n, dist))
        grab(f"nth_std_curve({n})", lambda n=n: h.nth_std_curve(n, dist))
    return out


def is_raise(v):
    return isinstance(v, tuple) and len(v) > 0 and v[0] == "raises"


def judge_state(ctx, az, steps, rng):
    import hvsrpy
    hs = az.hvsrs
    vws = [np.asarray(h.valid_window_boolean_mask, dtype=bool) for h in hs]
    has = [~np.isnan(h._main_peak_frq) for h in hs]
    res = [vw & hp for vw, hp in zip(vws, has)]
    ctx.count("states_seen")
    if any(r.sum() < 1 for r in res) or sum(r.sum() for r in res) < 2 or sum(v.sum() for v in vws) < 2:
        # an azimuth with accepted windows but no peak (e.g. no curve of it peaks inside the search range): the resonance
        # statistics are undefined, the mean-curve statistics are not - every azimuth still weighs 1/n_azimuths
        if all(v.sum() >= 1 for v in vws) and sum(v.sum() for v in vws) >= 2:
            judge_curves_only(ctx, az, steps, vws)
        else:
            ctx.count("states_not_judged")
        return False
    masks_differ = any(not np.array_equal(vw, r) for vw, r in zip(vws, res))
    ctx.count("states_judged")
    f = az.frequency
    sr = az._search_range_in_hz
    pf = np.concatenate([h._main_peak_frq[r] for h, r in zip(hs, res)])
    pa = np.concatenate([h._main_peak_amp[r] for h, r in zip(hs, res)])
    wp = MS.weights([int(r.sum()) for r in res])
    rows = np.vstack([h.amplitude[vw] for h, vw in zip(hs, vws)])
    wc = MS.weights([int(vw.sum()) for vw in vws])
    info = dict(n_azimuths=len(hs), accepted=[int(v.sum()) for v in vws], with_peak=[int(r.sum()) for r in res],
                accepted_windows_without_peak=masks_differ, steps=[s[0] for s in steps][-4:])
    for dist in ("normal", "lognormal"):
        # now and then the distribution is named by its accepted alias
        got = accessors(az, "log-normal" if (dist == "lognormal" and rng.random() < 0.25) else dist)
        want = {"mean_fn_frequency": MS.wmean(pf, wp, dist), "std_fn_frequency": MS.wstd(pf, wp, dist),
                "mean_fn_amplitude": MS.wmean(pa, wp, dist), "std_fn_amplitude": MS.wstd(pa, wp, dist),
                "cov_fn": MS.wcov(pf, pa, wp, dist), "mean_curve": MS.wmean(rows, wc, dist), "std_curve": MS.wstd(rows, wc, dist)}
        for n in (1.0, -2.0):
            want[f"nth_std_fn_frequency({n})"] = MS.nth(want["mean_fn_frequency"], want["std_fn_frequency"], n, dist)
            want[f"nth_std_fn_amplitude({n})"] = MS.nth(want["mean_fn_amplitude"], want["std_fn_amplitude"], n, dist)
            want[f"nth_std_curve({n})"] = MS.nth(want["mean_curve"], want["std_curve"], n, dist)
        tf = (np.max(np.abs(np.log(pf))) if dist == "lognormal" else np.max(np.abs(pf))) + 1.0
        ta = (np.max(np.abs(np.log(pa))) if dist == "lognormal" else np.max(np.abs(pa))) + 1.0
        tc = (np.max(np.abs(np.log(rows))) if dist == "lognormal" else np.max(np.abs(rows))) + 1.0
        for name, w in want.items():
            g = got[name]
            if is_raise(g):
                ok = False
            else:
                ok = same_value(g, w, 1e-10)
                if not ok:
                    ga = np.asarray(g, dtype=float)
                    if name == "cov_fn":
                        ok = bool(np.all(np.abs(ga - w) <= 1e-10 * np.sqrt(abs(w[0, 0] * w[1, 1])) + 1e-12 * tf * ta))
                    elif name.startswith("std_fn"):
                        ok = bool(abs(ga - w) <= 1e-10 * abs(w) + 1e-11 * (tf if "frequency" in name else ta))
                    elif name == "std_curve":
                        ok = ga.shape == np.shape(w) and bool(np.all(np.abs(ga - w) <= 1e-10 * np.abs(w) + 1e-11 * tc))
                    elif name.startswith("nth_std"):
                        ok = same_value(g, w, 1e-8)
            ctx.check(ok, "weighted-estimator", f"{name}({dist}) differs from the equal-azimuth-weight estimator",
                      accessor=name, distribution=dist, got=g, want=w, **info)
        if not is_raise(got["cov_fn"]) and not is_raise(got["std_fn_frequency"]):
            c = np.asarray(got["cov_fn"])
            ok = abs(c[0, 0] - got["std_fn_frequency"] ** 2) <= 1e-9 * abs(c[0, 0]) + 1e-12 * tf ** 2 and \
                abs(c[1, 1] - got["std_fn_amplitude"] ** 2) <= 1e-9 * abs(c[1, 1]) + 1e-12 * ta ** 2
            ctx.check(ok, "variance-on-covariance-diagonal", "covariance diagonal differs from the squared standard deviations",
                      distribution=dist, cov=c, std_f=got["std_fn_frequency"], std_a=got["std_fn_amplitude"], **info)
        mc, mp = got["mean_curve"], got["mean_curve_peak"]
        if not is_raise(mc) and hs[0]._find_peaks_kwargs:
            ctx.count("mean_curve_peak_not_judged_find_peaks_kwargs")    # height / prominence redefine "a peak" (C08 ASSUMPTIONS)
        elif not is_raise(mc):
            o = Oracle(f, mc, tuple(sr))
            if is_raise(mp):
                ctx.check(not o.nan_forbidden, "mean-curve-peak", "mean_curve_peak refused although the mean curve has an "
                          "interior local maximum in the range", distribution=dist, **info)
            else:
                probs = o.judge(mp[0], mp[1])
                ctx.check(not probs, "mean-curve-peak", f"mean_curve_peak({dist}): {probs[0][1] if probs else ''}", **info)
        # -- reductions on the real code -------------------------------------------------------
        if len(hs) == 1:
            t = hs[0]
            from .C05 import accessors as tacc
            tg = tacc(t, dist, [1.0, -2.0])
            bad = [k for k in got if not same_value(got[k], tg[k], 1e-10)
                   and not (not is_raise(got[k]) and not is_raise(tg[k]) and np.all(np.abs(np.asarray(got[k], float) - np.asarray(tg[k], float)) <= 1e-11 * max(tf, ta, tc) ** 2))]
            ctx.check(not bad, "single-azimuth-equals-traditional", "with one azimuth a statistic differs from the traditional one",
                      accessors=bad[:5], distribution=dist, got=[got[k] for k in bad[:2]], traditional=[tg[k] for k in bad[:2]], **info)
        counts = {int(r.sum()) for r in res}
        if len(counts) == 1 and not masks_differ and len(hs) > 1:
            pooled = hvsrpy.HvsrTraditional(f, rows)
            pooled.update_peaks_bounded(search_range_in_hz=tuple(sr), find_peaks_kwargs=hs[0]._find_peaks_kwargs)
            from .C05 import accessors as tacc
            tg = tacc(pooled, dist, [1.0, -2.0])
            bad = []
            for k in got:
                if is_raise(got[k]) or is_raise(tg[k]):
                    if is_raise(got[k]) != is_raise(tg[k]):
                        bad.append(k)
                    continue
                a, b = np.asarray(got[k], float), np.asarray(tg[k], float)
                if not (a.shape == b.shape and np.all(np.abs(a - b) <= 1e-9 * np.abs(b) + 1e-11 * max(tf, ta, tc) ** 2)):
                    bad.append(k)
            ctx.check(not bad, "equal-counts-equals-pooled", "with equally many accepted windows per azimuth a statistic differs "
                      "from the unweighted statistic of the pooled windows", accessors=bad[:5], distribution=dist,
                      got=[got[k] for k in bad[:2]], pooled=[tg[k] for k in bad[:2]], **info)
        if len(hs) > 1:
            perm = rng.permutation(len(hs))
            p = copy.deepcopy(az)
            p.hvsrs = [p.hvsrs[i] for i in perm]
            p.azimuths = [p.azimuths[i] for i in perm]
            pg = accessors(p, dist)
            bad = []
            for k in got:
                if is_raise(got[k]) or is_raise(pg[k]):
                    if is_raise(got[k]) != is_raise(pg[k]):
                        bad.append(k)
                    continue
                a, b = np.asarray(got[k], float), np.asarray(pg[k], float)
                if not (a.shape == b.shape and np.all(np.abs(a - b) <= 1e-10 * np.abs(b) + 1e-11 * max(tf, ta, tc) ** 2)):
                    bad.append(k)
            ctx.check(not bad, "azimuth-order-invariant", "a statistic depends on the order of the azimuths", accessors=bad[:5],
                      distribution=dist, **info)
        if any((~vw).any() for vw in vws):
            p = copy.deepcopy(az)
            for h, vw in zip(p.hvsrs, vws):
                rej = np.flatnonzero(~vw)
                h.amplitude[rej] = 1e6
                h._main_peak_frq[rej] = f[-2]
                h._main_peak_amp[rej] = 1e6
            pg = accessors(p, dist)
            bad = [k for k in got if not ((is_raise(got[k]) and is_raise(pg[k])) or
                                          (not is_raise(got[k]) and not is_raise(pg[k]) and
                                           biteq(np.asarray(got[k], float), np.asarray(pg[k], float))))]
            ctx.check(not bad, "poisoned-rejected-rows-bit-identical", "a statistic changes when the rejected rows are overwritten",
                      accessors=bad[:5], distribution=dist, **info)
    return len({int(r.sum()) for r in res}) > 1


def judge_curves_only(ctx, az, steps, vws):
    hs = az.hvsrs
    rows = np.vstack([h.amplitude[vw] for h, vw in zip(hs, vws)])
    wc = MS.weights([int(vw.sum()) for vw in vws])
    ctx.count("states_judged_curves_only")
    info = dict(n_azimuths=len(hs), accepted=[int(v.sum()) for v in vws],
                with_peak=[int((v & ~np.isnan(h._main_peak_frq) & h.valid_peak_boolean_mask).sum()) for h, v in zip(hs, vws)],
                steps=[s[0] for s in steps][-4:])
    for dist in ("normal", "lognormal"):
        want = {"mean_curve": MS.wmean(rows, wc, dist), "std_curve": MS.wstd(rows, wc, dist)}
        want["nth_std_curve(1.0)"] = MS.nth(want["mean_curve"], want["std_curve"], 1.0, dist)
        tc = (np.max(np.abs(np.log(rows))) if dist == "lognormal" else np.max(np.abs(rows))) + 1.0
        for name, w in want.items():
            try:
                with np.errstate(all="ignore"):
                    g = az.nth_std_curve(1.0, dist) if name.startswith("nth") else getattr(az, name)(dist)
            except Exception as e:
                g = ("raises", type(e).__name__, str(e)[:80])
            ok = (not is_raise(g)) and np.shape(g) == np.shape(w) and bool(np.all(np.abs(np.asarray(g, float) - w) <= 1e-9 * np.abs(w) + 1e-11 * tc))
            ctx.check(ok, "weighted-estimator", f"{name}({dist}) differs from the equal-azimuth-weight estimator (an azimuth has accepted "
                      "windows but no peak)", accessor=name, distribution=dist, got=g, want=w, **info)


def fam_azimuth_without_peak(ctx, rng):
    """One azimuth whose curves all peak outside the search range: it keeps its accepted windows, has no valid peak."""
    import hvsrpy
    naz = int(rng.integers(2, 6))
    f = np.geomspace(0.3, 30, 48)
    lf = np.log(f)
    odd = int(rng.integers(0, naz))
    hv = []
    for a in range(naz):
        nc = int(rng.integers(2, 8))
        centre = np.log(12.0) if a == odd else np.log(float(rng.uniform(1.5, 3.5)))
        amp = 1.0 + rng.uniform(1, 4, (nc, 1)) * np.exp(-0.5 * ((lf[None, :] - (centre + rng.normal(0, 0.05, (nc, 1)))) / 0.15) ** 2)
        hv.append(hvsrpy.HvsrTraditional(f, amp))
    az = hvsrpy.HvsrAzimuthal(hv, list(np.linspace(0, 150, naz)))
    az.update_peaks_bounded(search_range_in_hz=(0.8, 6.0))
    steps = [["range", [0.8, 6.0]]]
    judge_state(ctx, az, steps, rng)
    if rng.random() < 0.5:
        steps.append(histories.step_manual(rng, az, az.hvsrs))
        judge_state(ctx, az, steps, rng)
    ctx.describe(n_azimuths=naz, azimuth_without_peak=odd, n_curves=[int(h.n_curves) for h in az.hvsrs], steps=steps,
                 valid_peaks=[int(h.valid_peak_boolean_mask.sum()) for h in az.hvsrs])
    ctx.nontrivial(["no-peak-azimuth", naz, odd, [int(h.n_curves) for h in az.hvsrs]])


def maybe_repeat_azimuth_value(rng, az):
    """Now and then two entries carry the same azimuth value (two instruments, or two recordings, processed at the same
    azimuths and gathered in one result): every ENTRY is an azimuth of its own for the weights."""
    if len(az.azimuths) >= 2 and rng.random() < 0.2:
        i, j = (int(v) for v in rng.choice(len(az.azimuths), 2, replace=False))
        az.azimuths = list(az.azimuths)
        az.azimuths[j] = az.azimuths[i]
        return True
    return False


def build_large(rng):
    """A dense azimuth sweep of a long recording: accepted windows x frequency samples above 2^20, unequal counts."""
    import hvsrpy
    n_az, n_freq = int(rng.choice([36, 45])), int(rng.choice([512, 600]))
    f = np.geomspace(0.2, 40, n_freq)
    lf = np.log(f)
    hv = []
    for a in range(n_az):
        nc = int(rng.integers(55, 75))
        c = rng.uniform(lf[40], lf[-40]) + 0.3 * np.sin(a / n_az * 2 * np.pi)
        amp = (1.0 + 0.5 * a / n_az) * (1.0 + rng.uniform(1, 5, (nc, 1)) * np.exp(-0.5 * ((lf[None, :] - (c + rng.normal(0, 0.1, (nc, 1)))) / 0.2) ** 2))
        hv.append(hvsrpy.HvsrTraditional(f, amp))
    az = hvsrpy.HvsrAzimuthal(hv, np.linspace(0, 180, n_az, endpoint=False).tolist(), meta={"processing_method": "azimuthal"})
    for h in az.hvsrs[::3]:                              # unequal accepted counts
        k = int(rng.integers(1, 20))
        h.valid_window_boolean_mask[:k] = False
        h.valid_peak_boolean_mask[:k] = False
    return az


def fam_history(ctx, rng):
    # a routine sweep is 5, 10 or 15 degrees apart: 12-36 azimuths (one case in 25; the dense sweep above covers 36 and 45)
    az = histories.build_azimuthal(rng, n_az=int(rng.choice([10, 12, 18, 24, 30])) if rng.random() < 0.04 else None)
    maybe_repeat_azimuth_value(rng, az)
    nontriv = judge_state(ctx, az, [], rng)
    steps_seen = []
    for steps in histories.random_history(rng, az, n_steps=int(rng.integers(1, 6))):
        steps_seen = steps
        nontriv = judge_state(ctx, az, steps, rng) or nontriv
    ctx.describe(n_azimuths=len(az.hvsrs), azimuths=az.azimuths, n_curves=[int(h.n_curves) for h in az.hvsrs],
                 steps=steps_seen, accepted=[int(h.valid_window_boolean_mask.sum()) for h in az.hvsrs])
    if nontriv:
        ctx.nontrivial([len(az.hvsrs), [int(h.n_curves) for h in az.hvsrs], [s[0] for s in steps_seen],
                        [int(h.valid_window_boolean_mask.sum()) for h in az.hvsrs]])
    ctx.state([len(az.hvsrs), [s[0] for s in steps_seen]])


def fam_manual_unequal(ctx, rng):
    """Deliberately unequal acceptance counts through manual per-azimuth rejections."""
    az = histories.build_azimuthal(rng, equal_counts=True)
    maybe_repeat_azimuth_value(rng, az)
    steps = []
    for _ in range(int(rng.integers(1, 4))):
        steps.append(histories.step_manual(rng, az, az.hvsrs))
        judge_state(ctx, az, steps, rng)
    ctx.describe(n_azimuths=len(az.hvsrs), n_curves=[int(h.n_curves) for h in az.hvsrs], steps=steps,
                 accepted=[int(h.valid_window_boolean_mask.sum()) for h in az.hvsrs])
    acc = [int(h.valid_window_boolean_mask.sum()) for h in az.hvsrs]
    if len(set(acc)) > 1:
        ctx.nontrivial(["manual", len(az.hvsrs), acc])


def fam_single_azimuth(ctx, rng):
    az = histories.build_azimuthal(rng, n_az=1)
    judge_state(ctx, az, [], rng)
    steps = [histories.step_manual(rng, az, az.hvsrs)]
    judge_state(ctx, az, steps, rng)
    ctx.describe(n_azimuths=1, n_curves=[int(az.hvsrs[0].n_curves)], steps=steps)
    ctx.nontrivial(["single", int(az.hvsrs[0].n_curves), az.hvsrs[0].valid_window_boolean_mask.tolist()])


def or_large(fn):
    """Whatever the family, the cases with index 7 mod 349 (two per quick run) are the costly dense sweep."""
    def run(ctx, rng):
        if not ctx.every(349, 7):
            return fn(ctx, rng)
        az = build_large(rng)
        judge_state(ctx, az, [["large"]], rng)
        ctx.describe(n_azimuths=len(az.hvsrs), n_curves=[int(h.n_curves) for h in az.hvsrs][:6], n_freq=int(az.frequency.size), steps=["large"])
        ctx.nontrivial(["large", len(az.hvsrs), int(az.frequency.size)])
    return run


FAMILIES = [(n, or_large(f)) for n, f in
            [("azimuth-without-peak", fam_azimuth_without_peak), ("random-history", fam_history), ("manual-unequal-counts", fam_manual_unequal),
             ("single-azimuth", fam_single_azimuth), ("random-history-2", fam_history)]]
