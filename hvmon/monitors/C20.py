"""C20 - plots and summary tables are read-only and show the object's state.

Probes: every public function of hvsrpy.postprocessing that takes an HVSR result or recordings
(plot_single_panel_hvsr_curves, plot_seismic_recordings_3c, plot_pre_and_post_rejection,
plot_azimuthal_contour_2d / _3d, plot_azimuthal_summary, summarize_hvsr_statistics), called at its
public boundary under the Agg backend.  Observed: (1) bit-exact snapshots of the object, the
recordings, every argument container and DEFAULT_KWARGS before/after the call - also when the call
raises; (2) Axes.get_lines() / patches of the returned axes, classified by the exact style of
postprocessing.DEFAULT_KWARGS, plus the arrays handed to contourf / plot_surface / scatter (recorded
by a wrapper that is installed only for the duration of the call); (3) the Styler handed to
``display`` (its .data DataFrame and caption) and the text printed for diffuse-field results.
Expected values come from a deep copy of the object taken *before* the call (accessors of the real
code; C05 / C08 / C11 judge the accessors themselves) and, for the period row, from models/stats.py.
"""

import collections
import contextlib
import copy
import io
import re
import warnings

import numpy as np

from .. import gen, histories, snap
from ..ctx import close
from ..models import stats as MS

PROPERTY = "C20"
NUM = 20
RULE = ("cases = traditional (2-20 windows) / azimuthal (1-5 azimuths x 2-15 windows) / diffuse-field results after a "
        "history of 0-4 steps (range updates, FDWRA, time-domain and manual rejections), plus a family in which some windows "
        "have no peak in a narrow search range (rejected by the peak search; after a time-domain step also accepted without a "
        "peak); at 1-3 states per case one or more of the seven functions is called with random boolean options, "
        "distribution_mc x distribution_fn in {normal,lognormal}^2, created or user-supplied axes, recordings (1-12 windows of "
        "120-400 samples) with the object's mask / a list / None / a single recording, normalised or not; states in which a "
        "statistic is undefined are also called (always for the pre/post figure, else with probability 0.35): the refusal is "
        "accepted, the snapshot is still judged; non-trivial = at least one rejected window or a bounded search range; "
        "distinct = (kind, functions, masks, range) signatures")
ASSUMPTIONS = [
    "expected statistics are the accessors of a deep copy of the object taken before the call (C05/C08/C11 judge the accessors); "
    "the period row is judged against models/stats.py (azimuth-weighted for azimuthal results)",
    "an artist is judged only if its style is exactly one DEFAULT_KWARGS class (curves: linewidth/colour/linestyle without marker; "
    "markers: marker/size/face/edge colour/edge width without line); other artists are counted as not classified",
    "an option that is switched off: artists of that class, if drawn anyway, must still be the object's data/statistics (a marker "
    "drawn although its option is off is counted as a diagnostic, not alarmed - the statement does not define the options)",
    "per-window peak markers are compared after dropping NaN points (windows without a peak have nothing to show)",
    "'before' panel: statistics of the object with every window accepted (peak mask = windows that hold a peak)",
    "summary table under distribution_fn='normal': a blank (NaN) period row is 'not shown' and not judged; finite cells must be the "
    "lognormal median / log-std of 1/f; the +-1 sigma cells of the period row are compared as a set (lognormal) or not judged (normal)",
    "3-D peak markers: frequency (log10 or plain) and azimuth coordinates are judged exactly, the height must be the peak amplitude "
    "times one common factor in [1, 1.25] (hvsrpy lifts the markers by 5 % above the surface; counted as a diagnostic)",
    "contour / surface: rows at the object's azimuths must be mean_curve_by_azimuth; the wrap-around row at 180 deg is not judged",
    "diffuse-field results: the mean-curve peak shown may be the full-range peak (mean_curve_peak() default) or the peak in the "
    "object's own search range; both are accepted and a difference between the two is counted",
    "normalised recordings: one common positive factor for all windows and components (its value is counted, not judged); time axes "
    "are judged relative to the first sample of each window",
    "an exception is accepted when a statistic the call needs raises on the copy as well (undefined state); any other exception is "
    "reported as raised-in-defined-state",
]
NOT_REACHED = ["plot_voronoi / summarize_spatial_statistics (take no HVSR object)", "manual_window_rejection (interactive)",
               "_plot_resonance_pdf (private, not called by any public function)", "rendered pixels (only artists and their data)",
               "a mean-fn line (this version draws only the +-1 sigma band)", "contourf_kwargs other than levels/cmap",
               "find_peaks_kwargs other than height / prominence", "more than 5 azimuths, more than 20 windows"]
BUDGET = {"quick": dict(cases=560, seconds=60, shards=4),
          "thorough": dict(cases=12000, seconds=600, shards=16)}
REQUIRED = ["mon:object-unchanged", "mon:recordings-unchanged", "mon:arguments-and-defaults-unchanged",
            "mon:accepted-lines-are-accepted-curves", "mon:rejected-lines-are-rejected-curves",
            "mon:mean-and-std-lines-are-the-statistics", "mon:mean-curve-peak-marker", "mon:window-peak-markers",
            "mon:fn-band-is-the-fn-statistics", "mon:before-panel-all-windows-accepted", "mon:recording-lines-are-the-windows",
            "mon:table-fn-rows-are-the-statistics", "mon:table-period-row", "mon:caption-is-mean-curve-peak",
            "mon:azimuthal-peak-markers", "mon:azimuthal-surface-is-mean-curve-by-azimuth"]

DISTS = ("lognormal", "normal")
CAPTURED = []
PRISTINE = {}


def _capture(styler):
    CAPTURED.append(styler)


def setup(ctx):
    import matplotlib
    matplotlib.use("Agg", force=True)
    from hvsrpy import postprocessing as pp
    pp.display = _capture
    PRISTINE["kwargs"] = copy.deepcopy(pp.DEFAULT_KWARGS)


def _pp():
    from hvsrpy import postprocessing as pp
    if pp.display is not _capture:
        pp.display = _capture
    if "kwargs" not in PRISTINE:
        PRISTINE["kwargs"] = copy.deepcopy(pp.DEFAULT_KWARGS)
    return pp


# -- small helpers ----------------------------------------------------------------------------
class Raised:
    def __init__(self, exc):
        self.exc = exc
        self.name = type(exc).__name__

    def __repr__(self):
        return f"raises {self.name}: {self.exc}"[:120]


def grab(fn, *a, **k):
    try:
        with np.errstate(all="ignore"), warnings.catch_warnings():
            warnings.simplefilter("ignore")
            return fn(*a, **k)
    except Exception as e:  # recorded, compared as "undefined in this state"
        return Raised(e)


def hvsrs_of(obj, kind):
    if kind == "azimuthal":
        return list(obj.hvsrs)
    if kind == "traditional":
        return [obj]
    return []


def arr(x):
    return np.asarray(np.ma.filled(x, np.nan) if np.ma.isMaskedArray(x) else x, dtype=float)


def state_info(obj, kind, steps):
    hs = hvsrs_of(obj, kind)
    return dict(kind=kind, n_curves=[int(h.n_curves) for h in hs], accepted=[int(np.sum(h.valid_window_boolean_mask)) for h in hs],
                with_peak=[int(np.sum(h.valid_peak_boolean_mask)) for h in hs], search_range=list(obj._search_range_in_hz),
                steps=[s[0] for s in steps][-5:])


def is_nontrivial(obj, kind):
    hs = hvsrs_of(obj, kind)
    return any((~np.asarray(h.valid_window_boolean_mask, bool)).any() for h in hs) or tuple(obj._search_range_in_hz) != (None, None)


def structurally_defined(obj, kind):
    hs = hvsrs_of(obj, kind)
    if kind == "azimuthal" and len({tuple(h._search_range_in_hz) for h in hs}) != 1:
        return False
    return all(np.sum(h.valid_window_boolean_mask) >= 1 for h in hs)


def well_defined(obj, kind):
    """States in which every statistic the functions may need exists (used to steer the workload only)."""
    hs = hvsrs_of(obj, kind)
    if kind == "diffuse":
        return not isinstance(grab(obj.mean_curve_peak), Raised)
    if not structurally_defined(obj, kind):
        return False
    if sum(int(np.sum(h.valid_window_boolean_mask)) for h in hs) < 2:
        return False
    if any(np.sum(np.asarray(h.valid_peak_boolean_mask, bool) & ~np.isnan(h._main_peak_frq)) < 1 for h in hs):
        return False
    if sum(int(np.sum(np.asarray(h.valid_peak_boolean_mask, bool) & ~np.isnan(h._main_peak_frq))) for h in hs) < 2:
        return False
    for d in DISTS:
        if isinstance(grab(obj.mean_curve_peak, d), Raised):
            return False
        if kind == "azimuthal" and isinstance(grab(obj.mean_curve_peak_by_azimuth, d), Raised):
            return False
    return True


# -- style classes from DEFAULT_KWARGS ---------------------------------------------------------
def _rgba(c):
    from matplotlib.colors import to_rgba
    try:
        return tuple(round(float(v), 6) for v in to_rgba(c))
    except Exception:
        return None


_LS = {"-": "-", "solid": "-", "--": "--", "dashed": "--", "": "None", " ": "None", "None": "None", "none": "None", None: "None",
       ":": ":", "dotted": ":", "-.": "-.", "dashdot": "-."}

CURVE_CLASSES = {"individual_valid_hvsr_curve": "accepted", "individual_invalid_hvsr_curve": "rejected",
                 "mean_hvsr_curve": "mean", "nth_std_mean_hvsr_curve": "std"}
MARKER_CLASSES = {"peak_mean_hvsr_curve": "mean_peak", "peak_mean_hvsr_curve_azimuthal": "mean_peak",
                  "peak_mean_hvsr_curve_azimuthal_2d": "azimuth_peak_2d", "peak_individual_valid_hvsr_curve": "peak_accepted",
                  "peak_individual_invalid_hvsr_curve": "peak_rejected"}


def style_table():
    """{key: class or None (ambiguous)} built from the pristine DEFAULT_KWARGS."""
    if "table" in PRISTINE:
        return PRISTINE["table"]
    _pp()
    kw = PRISTINE["kwargs"]
    table = {}

    def put(key, cls):
        if key in table and table[key] != cls:
            table[key] = None          # two classes share a style: never guessed
        else:
            table[key] = cls
    for name, cls in CURVE_CLASSES.items():
        d = kw[name]
        put(("curve", round(float(d["linewidth"]), 6), _rgba(d["color"]), _LS.get(d.get("linestyle", "-"), "?")), cls)
    for name, cls in MARKER_CLASSES.items():
        d = kw[name]
        put(("marker", d["marker"], round(float(d["markersize"]), 6), _rgba(d["markerfacecolor"]), _rgba(d["markeredgecolor"]),
             round(float(d["markeredgewidth"]), 6)), cls)
    PRISTINE["table"] = table
    return table


def classify(lines):
    table = style_table()
    groups = collections.defaultdict(list)
    for ln in lines:
        ls = _LS.get(ln.get_linestyle(), "?")
        mk = ln.get_marker()
        mk = "None" if mk in (None, "", " ", "none", "None") else mk
        if mk == "None" and ls != "None":
            key = ("curve", round(float(ln.get_linewidth()), 6), _rgba(ln.get_color()), ls)
        elif ls == "None" and mk != "None":
            key = ("marker", mk, round(float(ln.get_markersize()), 6), _rgba(ln.get_markerfacecolor()),
                   _rgba(ln.get_markeredgecolor()), round(float(ln.get_markeredgewidth()), 6))
        else:
            key = None
        try:
            cls = table.get(key, "unknown") if key is not None else "unknown"
        except TypeError:
            cls = "unknown"
        groups["ambiguous" if cls is None else cls].append(ln)
    return groups


def xy(ln):
    return arr(ln.get_xdata()), arr(ln.get_ydata())


def exact_multiset(pairs):
    return collections.Counter((np.ascontiguousarray(x).tobytes(), np.ascontiguousarray(y).tobytes()) for x, y in pairs)


def points_multiset(xs, ys):
    xs, ys = arr(xs).ravel(), arr(ys).ravel()
    keep = ~(np.isnan(xs) | np.isnan(ys))
    return collections.Counter(zip(xs[keep].tolist(), ys[keep].tolist()))


def sub_multiset(a, b):
    return all(b.get(k, 0) >= v for k, v in a.items())


# -- recorder of the arrays handed to contourf / plot_surface / scatter ---------------------------
class Recorder:
    def __init__(self):
        self.calls = []
        self._undo = []

    def __enter__(self):
        from matplotlib.axes import Axes
        from mpl_toolkits.mplot3d.axes3d import Axes3D
        for cls, name in ((Axes, "contourf"), (Axes3D, "plot_surface"), (Axes3D, "scatter")):
            own = name in cls.__dict__
            orig = getattr(cls, name)

            def wrapper(ax, *a, _orig=orig, _name=name, **k):
                try:
                    self.calls.append((_name, ax, [np.array(arr(v), copy=True) for v in a[:3]]))
                except Exception:
                    self.calls.append((_name, ax, None))
                return _orig(ax, *a, **k)
            setattr(cls, name, wrapper)
            self._undo.append((cls, name, orig, own))
        return self

    def __exit__(self, *exc):
        for cls, name, orig, own in reversed(self._undo):
            if own:
                setattr(cls, name, orig)
            else:
                delattr(cls, name)
        return False

    def of(self, name, ax=None):
        return [c for c in self.calls if c[0] == name and (ax is None or c[1] is ax)]


# -- the guarded call ----------------------------------------------------------------------------
def guarded(ctx, fname, call, obj, recs, extra, info, options):
    """Run one call with snapshots around it. Returns (result or None, exception or None, recorder, printed text)."""
    pp = _pp()
    ctx.describe(function=fname, options=options, state=info)
    b_obj = snap.snap(obj) if obj is not None else None
    b_recs = snap.snap(recs) if recs is not None else None
    b_extra = snap.snap(extra)
    b_kw = snap.snap(pp.DEFAULT_KWARGS)
    rec = Recorder()
    out, exc = None, None
    buf = io.StringIO()
    try:
        with rec, np.errstate(all="ignore"), warnings.catch_warnings(), contextlib.redirect_stdout(buf):
            warnings.simplefilter("ignore")
            out = call()
    except Exception as e:      # judged below: snapshots first, then whether the state was defined
        exc = e
    raised = type(exc).__name__ if exc is not None else None
    ctx.count("calls")
    ctx.count("calls:" + fname)
    if exc is not None:
        ctx.count("calls_that_raised")
        ctx.count("calls_that_raised:" + fname + ":" + raised)
    if obj is not None:
        dd = snap.diff(b_obj, snap.snap(obj))
        ctx.check(not dd, "object-unchanged", f"{fname} changed the HVSR object it was given"
                  + (f" (the call raised {raised})" if raised else ""), function=fname, raised=raised, differences=dd[:6],
                  options=options, **info)
    if recs is not None:
        dd = snap.diff(b_recs, snap.snap(recs))
        ctx.check(not dd, "recordings-unchanged", f"{fname} changed the recordings it was given", function=fname, raised=raised,
                  differences=dd[:6], options=options, **info)
    dd = snap.diff(b_extra, snap.snap(extra)) + snap.diff(b_kw, snap.snap(pp.DEFAULT_KWARGS), "DEFAULT_KWARGS")
    ctx.check(not dd, "arguments-and-defaults-unchanged", f"{fname} changed an argument container or DEFAULT_KWARGS",
              function=fname, raised=raised, differences=dd[:6], options=options, **info)
    return out, exc, rec, buf.getvalue()


def settle_exception(ctx, fname, exc, needed, info, options):
    """An exception is admissible iff a statistic the call needs is undefined on the copy as well."""
    undefined = [k for k, v in needed.items() if isinstance(v, Raised) or v is False]
    if undefined:
        ctx.count("refusals_in_undefined_states")
        return
    import traceback
    tb = "".join(traceback.format_exception(type(exc), exc, exc.__traceback__))[-1500:]
    ctx.check(False, "raised-in-defined-state", f"{fname} raised {type(exc).__name__}: {exc} although every statistic it shows is "
              "defined for the object", function=fname, raised=type(exc).__name__, traceback=tb, options=options, **info)


# -- expected statistics of a panel --------------------------------------------------------------
def panel_needs(twin, kind, dmc, dfn, o):
    """Statistics a single-panel drawing needs, evaluated on the copy."""
    need = {"structure": structurally_defined(twin, kind)}
    if not need["structure"]:
        return need
    if o["plot_mean_curve"]:
        need["mean_curve"] = grab(twin.mean_curve, dmc)
        if kind != "diffuse":
            need["std_plus"] = grab(twin.nth_std_curve, +1, dmc)
            need["std_minus"] = grab(twin.nth_std_curve, -1, dmc)
    if o["plot_frequency_std"] and kind != "diffuse":
        need["fn_minus"] = grab(twin.nth_std_fn_frequency, -1, dfn)
        need["fn_plus"] = grab(twin.nth_std_fn_frequency, +1, dfn)
    if o["plot_peak_mean_curve"]:
        need["mean_curve_peak"] = grab(twin.mean_curve_peak, dmc)
    return need


def judge_panel(ctx, ax, twin, kind, dmc, dfn, o, info, fname, panel, strict_no_rejected=False):
    """Artists of one HVSR panel against the copy `twin` (which holds the masks the panel must show)."""
    pp = _pp()
    w = dict(function=fname, panel=panel, distribution_mc=dmc, distribution_fn=dfn, options=o, **info)
    groups = classify(ax.get_lines())
    ctx.count("panels_judged")
    for k in ("unknown", "ambiguous"):
        if groups.get(k):
            ctx.count(f"lines_not_classified:{k}", len(groups[k]))
    hs = hvsrs_of(twin, kind)
    f = arr(twin.frequency)

    # (A/B) accepted- and rejected-style lines
    for cls, valid, opt, mon in (("accepted", True, "plot_valid_curves", "accepted-lines-are-accepted-curves"),
                                 ("rejected", False, "plot_invalid_curves", "rejected-lines-are-rejected-curves")):
        exp = []
        for h in hs:
            m = np.asarray(h.valid_window_boolean_mask, bool)
            m = m if valid else ~m
            exp += [(arr(h.frequency), arr(r)) for r in np.asarray(h.amplitude)[m]]
        drawn = exact_multiset(xy(ln) for ln in groups.get(cls, []))
        want = exact_multiset(exp)
        if o[opt] or (cls == "rejected" and strict_no_rejected):
            if not o[opt]:
                want = collections.Counter()
            ctx.check(drawn == want, mon, f"the {cls}-style lines are not exactly the {cls} windows' curves "
                      f"({sum(drawn.values())} drawn, {sum(want.values())} {cls} windows, {sum((drawn & want).values())} identical)",
                      drawn=sum(drawn.values()), expected=sum(want.values()), identical=sum((drawn & want).values()), **w)
            ctx.count(f"artists_judged:{cls}", sum(drawn.values()))
        elif drawn:
            ctx.count(f"diagnostic_{cls}_lines_drawn_although_option_off", sum(drawn.values()))
            ctx.check(sub_multiset(drawn, want), mon, f"{cls}-style lines that are not {cls} windows' curves", **w)

    # (C) mean and +-1 std lines
    if o["plot_mean_curve"]:
        mean = grab(twin.mean_curve, dmc)
        ml = groups.get("mean", [])
        sl = groups.get("std", [])
        if not isinstance(mean, Raised):
            ok = len(ml) == 1
            detail = f"{len(ml)} mean-style lines"
            if ok:
                x, y = xy(ml[0])
                if kind == "diffuse":
                    ok = np.array_equal(x, f) and np.array_equal(y, arr(twin.amplitude))
                else:
                    ok = np.array_equal(x, f) and close(y, arr(mean), rtol=1e-12)
                detail = "mean line differs from mean_curve(distribution_mc)"
            if kind != "diffuse":
                sp, sm = grab(twin.nth_std_curve, +1, dmc), grab(twin.nth_std_curve, -1, dmc)
                if not isinstance(sp, Raised) and not isinstance(sm, Raised):
                    oks = len(sl) == 2
                    if oks:
                        (x1, y1), (x2, y2) = xy(sl[0]), xy(sl[1])
                        oks = np.array_equal(x1, f) and np.array_equal(x2, f) and \
                            ((close(y1, arr(sp), rtol=1e-12) and close(y2, arr(sm), rtol=1e-12)) or
                             (close(y1, arr(sm), rtol=1e-12) and close(y2, arr(sp), rtol=1e-12)))
                    if not oks:
                        detail += f"; {len(sl)} std-style lines / they differ from nth_std_curve(+-1)"
                    ok = ok and oks
                    ctx.count("artists_judged:std", len(sl))
            elif sl:
                ctx.count("diagnostic_std_lines_for_a_diffuse_field_result_not_judged", len(sl))
            ctx.check(ok, "mean-and-std-lines-are-the-statistics", detail, n_mean_lines=len(ml), n_std_lines=len(sl), **w)
            ctx.count("artists_judged:mean", len(ml))
    else:
        for cls in ("mean", "std"):
            if groups.get(cls):
                ctx.count(f"diagnostic_{cls}_lines_drawn_although_option_off", len(groups[cls]))

    # (D) marker at the peak of the mean curve
    mk = groups.get("mean_peak", [])
    if mk or o["plot_peak_mean_curve"]:
        cands = [grab(twin.mean_curve_peak, dmc)]
        if kind == "diffuse":
            own = (twin.peak_frequency, twin.peak_amplitude)
            if not isinstance(cands[0], Raised) and not close(arr(cands[0]), arr(own), rtol=1e-12):
                ctx.count("diagnostic_diffuse_full_range_peak_differs_from_peak_in_own_search_range")
            cands.append(own)
        cands = [c for c in cands if not isinstance(c, Raised)]
        if cands:
            ok = (len(mk) >= 1) if o["plot_peak_mean_curve"] else True
            for ln in mk:
                x, y = xy(ln)
                ok = ok and x.size == 1 and any(close(np.array([x[0], y[0]]), arr(c), rtol=1e-12) for c in cands)
            ctx.check(ok, "mean-curve-peak-marker", "the marker of the mean-curve peak is missing or differs from "
                      "mean_curve_peak(distribution_mc)", n_markers=len(mk), drawn=[[*map(float, xy(ln)[0]), *map(float, xy(ln)[1])] for ln in mk][:3],
                      expected=[list(map(float, c)) for c in cands], **w)
            ctx.count("artists_judged:mean_peak", len(mk))
            if mk and not o["plot_peak_mean_curve"]:
                ctx.count("diagnostic_mean_peak_marker_drawn_although_option_off")
            if len(mk) > 1:
                ctx.count("diagnostic_mean_peak_marker_drawn_more_than_once")

    # (E) per-window peak markers
    if kind != "diffuse":
        for cls, valid, opt in (("peak_accepted", True, "plot_peak_individual_valid_curves"),
                                ("peak_rejected", False, "plot_peak_individual_invalid_curves")):
            lns = groups.get(cls, [])
            if not lns and not o[opt]:
                continue
            ex, ey = [], []
            for h in hs:
                m = np.asarray(h.valid_peak_boolean_mask, bool)
                m = m if valid else ~m
                ex.append(arr(h._main_peak_frq)[m])
                ey.append(arr(h._main_peak_amp)[m])
            want = points_multiset(np.concatenate(ex) if ex else [], np.concatenate(ey) if ey else [])
            drawn = collections.Counter()
            for ln in lns:
                drawn += points_multiset(*xy(ln))
            if o[opt]:
                ok = drawn == want
            else:
                ok = sub_multiset(drawn, want)
                ctx.count(f"diagnostic_{cls}_markers_drawn_although_option_off")
            ctx.check(ok, "window-peak-markers", f"the {cls.replace('_', ' ')} markers are not the cached peaks of those windows "
                      f"({sum(drawn.values())} drawn, {sum(want.values())} expected)", marker_class=cls,
                      drawn=sum(drawn.values()), expected=sum(want.values()), **w)
            ctx.count(f"artists_judged:{cls}", sum(drawn.values()))

    # (F) +-1 sigma band of fn
    colours = {_rgba(PRISTINE["kwargs"][k]["color"]) for k in ("nth_std_frequency_range_normal", "nth_std_frequency_range_lognormal")}
    bands = [p for p in ax.patches if _rgba(p.get_facecolor()) in colours and hasattr(p, "get_xy")]
    if kind != "diffuse" and (o["plot_frequency_std"] or bands):
        lo, hi = grab(twin.nth_std_fn_frequency, -1, dfn), grab(twin.nth_std_fn_frequency, +1, dfn)
        if isinstance(lo, Raised) or isinstance(hi, Raised) or not (np.isfinite(lo) and np.isfinite(hi)):
            ctx.count("fn_band_not_judged_statistic_undefined")
        else:
            ok = (len(bands) == 1) if o["plot_frequency_std"] else len(bands) <= 1
            ext = None
            for p in bands:
                xs = arr(p.get_xy())[:, 0]
                ext = [float(np.min(xs)), float(np.max(xs))]
                ok = ok and close(np.array(ext), np.array(sorted([float(lo), float(hi)])), rtol=1e-12) and \
                    set(np.unique(xs).tolist()) <= set(ext)
            ctx.check(ok, "fn-band-is-the-fn-statistics", "the shaded band does not span nth_std_fn_frequency(-1)..(+1) of distribution_fn",
                      n_bands=len(bands), drawn_extent=ext, expected=[float(lo), float(hi)], **w)
            ctx.count("artists_judged:fn_band", len(bands))
            if bands and not o["plot_frequency_std"]:
                ctx.count("diagnostic_fn_band_drawn_although_option_off")
    return groups


def single_panel_options(rng, default=False):
    names = ["plot_valid_curves", "plot_invalid_curves", "plot_mean_curve", "plot_frequency_std", "plot_peak_mean_curve",
             "plot_peak_individual_valid_curves", "plot_peak_individual_invalid_curves"]
    if default:
        return dict(zip(names, [True, False, True, True, True, True, False]))
    mode = rng.random()
    if mode < 0.25:
        return {n: True for n in names}
    return {n: bool(rng.random() < 0.6) for n in names}


# -- the seven functions -----------------------------------------------------------------------------
def do_single_panel(ctx, rng, obj, kind, info):
    import matplotlib.pyplot as plt
    pp = _pp()
    dmc, dfn = str(rng.choice(DISTS)), str(rng.choice(DISTS))
    o = single_panel_options(rng)
    twin = copy.deepcopy(obj)
    extra = {}
    kw = dict(o, distribution_mc=dmc, distribution_fn=dfn)
    own_ax = None
    if rng.random() < 0.4:
        _, own_ax = plt.subplots(figsize=(3.0, 2.0), dpi=60)
        kw["ax"] = own_ax
    elif rng.random() < 0.5:
        extra["subplots_kwargs"] = dict(figsize=(3.0, 2.2), dpi=60)
        kw["subplots_kwargs"] = extra["subplots_kwargs"]
    opts = dict(o, distribution_mc=dmc, distribution_fn=dfn, user_axes=own_ax is not None, subplots_kwargs="subplots_kwargs" in kw)
    out, exc, rec, _ = guarded(ctx, "plot_single_panel_hvsr_curves", lambda: pp.plot_single_panel_hvsr_curves(obj, **kw),
                               obj, None, extra, info, opts)
    if exc is not None:
        settle_exception(ctx, "plot_single_panel_hvsr_curves", exc, panel_needs(twin, kind, dmc, dfn, o), info, opts)
        return
    ax = out if own_ax is not None else (out[1] if isinstance(out, tuple) and len(out) == 2 else None)
    if own_ax is not None and out is not own_ax:
        ctx.count("diagnostic_returned_axes_is_not_the_supplied_one")
        ax = own_ax
    if ax is None:
        ctx.count("panels_not_judged_no_axes_returned")
        return
    if own_ax is None and rng.random() < 0.35:
        # a batch script collects the figures first and looks at / saves them afterwards: another site is plotted with the
        # same options before the first figure is judged - it must still show the object it was made from
        try:
            other = copy.deepcopy(twin)
            keep = np.flatnonzero(np.asarray(hvsrs_of(other, kind)[0].valid_window_boolean_mask, bool))
            if keep.size >= 3:
                hvsrs_of(other, kind)[0].valid_window_boolean_mask[keep[0]] = False
                hvsrs_of(other, kind)[0].valid_peak_boolean_mask[keep[0]] = False
            pp.plot_single_panel_hvsr_curves(other, **{k: v for k, v in kw.items() if k != "ax"})
            ctx.count("figures_judged_after_a_later_call_of_the_same_function")
            info = dict(info, judged_after_a_later_plot_call=True)
        except Exception:
            ctx.count("later_plot_call_raised(not judged)")
    judge_panel(ctx, ax, twin, kind, dmc, dfn, o, info, "plot_single_panel_hvsr_curves", "single")
    ctx.state(["single", kind, dmc, dfn, sorted(k for k, v in o.items() if v), own_ax is not None])


def make_recordings(rng, k):
    n = int(rng.choice([120, 200, 400]))
    dt = float(rng.choice([0.01, 0.005, 0.02]))
    amp = float(10.0 ** rng.choice([-3, 0, 0, 4]))
    recs = []
    for _ in range(k):
        a = gen.recording_arrays(rng, n, str(rng.choice(["white", "sinusoids", "impulses", "am-noise"])), amp)
        recs.append(gen.make_recording(a[0], a[1], a[2], dt))
    return recs


def judge_seismic(ctx, axs, recs_twin, mask, normalize, info, fname, opts):
    """Three component panels: one line per window, style by mask, data = the window's samples (common factor if normalised)."""
    w = dict(function=fname, options=opts, **info)
    mask = [True] * len(recs_twin) if mask is None else [bool(m) for m in mask]
    factor = None
    problems = []
    n_lines = 0
    gmax = max(float(np.max(np.abs(arr(getattr(r, c).amplitude)))) for r in recs_twin for c in ("ns", "ew", "vt"))
    for ax, comp in zip(axs, ("ns", "ew", "vt")):
        groups = classify(ax.get_lines())
        for k in ("unknown", "ambiguous", "mean", "std", "mean_peak", "peak_accepted", "peak_rejected", "azimuth_peak_2d"):
            if groups.get(k):
                ctx.count("lines_not_classified:in_recording_panel", len(groups[k]))
        for cls, want_valid in (("accepted", True), ("rejected", False)):
            exp = [getattr(r, comp) for r, m in zip(recs_twin, mask) if m == want_valid]
            drawn = [xy(ln) for ln in groups.get(cls, [])]
            n_lines += len(drawn)
            if len(drawn) != len(exp):
                problems.append(f"{comp}: {len(drawn)} {cls}-style lines for {len(exp)} {cls} windows")
                continue
            used = [False] * len(exp)
            for x, y in drawn:
                hit = False
                for j, ts in enumerate(exp):
                    if used[j]:
                        continue
                    a = arr(ts.amplitude)
                    if a.shape != y.shape:
                        continue
                    if not normalize:
                        same = np.array_equal(y, a)
                    else:
                        if factor is None:
                            i = int(np.argmax(np.abs(a)))
                            if y[i] == 0 or a[i] == 0:
                                continue
                            cand = a[i] / y[i]
                            if not (cand > 0 and close(y * cand, a, rtol=1e-9, atol=1e-12 * gmax)):
                                continue
                            factor = float(cand)
                        same = close(y * factor, a, rtol=1e-9, atol=1e-12 * gmax)
                    if same:
                        t = arr(ts.time())
                        same = x.shape == t.shape and bool(np.all(np.abs((x - x[0]) - (t - t[0])) <= 1e-9 * (np.max(np.abs(x)) + 1.0)))
                        if not same:
                            problems.append(f"{comp}: time axis of a window is not its sample times")
                    if same:
                        used[j] = True
                        hit = True
                        break
                if not hit:
                    problems.append(f"{comp}: a {cls}-style line carries no {cls} window's samples")
                    break
    ctx.check(not problems, "recording-lines-are-the-windows", "; ".join(problems[:3]), problems=problems[:6], mask=mask,
              normalize=bool(normalize), **w)
    ctx.count("artists_judged:recording_lines", n_lines)
    if normalize and factor is not None and not close(factor, gmax, rtol=1e-12):
        ctx.count("diagnostic_normalisation_factor_is_not_the_overall_maximum")


def do_seismic(ctx, rng, obj, kind, info, recs):
    import matplotlib.pyplot as plt
    pp = _pp()
    normalize = bool(rng.random() < 0.6)
    extra = {}
    kw = dict(normalize=normalize)
    mode = str(rng.choice(["object-mask", "list", "none", "single-recording"]))
    srecs = recs
    mask = None
    if mode == "object-mask" and kind == "traditional":
        mask = obj.valid_window_boolean_mask
    elif mode == "list":
        mask = [bool(v) for v in rng.random(len(recs)) < 0.7]
    elif mode == "single-recording":
        srecs = recs[int(rng.integers(0, len(recs)))]
        if rng.random() < 0.5:
            mask = [bool(rng.random() < 0.5)]
    if mask is not None:
        extra["mask"] = mask
        kw["valid_window_boolean_mask"] = mask
    own = None
    if rng.random() < 0.4:
        _, own = plt.subplots(nrows=3, figsize=(3, 3), dpi=60)
        kw["axs"] = own
    elif rng.random() < 0.4:
        extra["subplots_kwargs"] = dict(figsize=(3.0, 3.0), dpi=60)
        kw["subplots_kwargs"] = extra["subplots_kwargs"]
    opts = dict(normalize=normalize, mask=mode, user_axes=own is not None, subplots_kwargs="subplots_kwargs" in kw)
    twin = copy.deepcopy(srecs)
    mask_copy = None if mask is None else [bool(m) for m in mask]
    out, exc, rec, _ = guarded(ctx, "plot_seismic_recordings_3c", lambda: pp.plot_seismic_recordings_3c(srecs, **kw),
                               obj if mode == "object-mask" else None, srecs, extra, info, opts)
    if exc is not None:
        settle_exception(ctx, "plot_seismic_recordings_3c", exc, {}, info, opts)
        return
    axs = own if own is not None else (out[1] if isinstance(out, tuple) and len(out) == 2 else None)
    if axs is None or len(axs) != 3:
        ctx.count("panels_not_judged_no_axes_returned")
        return
    judge_seismic(ctx, list(axs), twin if isinstance(twin, list) else [twin], mask_copy, normalize, info,
                  "plot_seismic_recordings_3c", opts)
    ctx.state(["3c", mode, normalize, own is not None])


def all_accepted_twin(twin):
    t = copy.deepcopy(twin)
    t.valid_window_boolean_mask = np.ones(t.n_curves, dtype=bool)
    t.valid_peak_boolean_mask = ~np.isnan(t._main_peak_frq)
    return t


def do_pre_post(ctx, rng, obj, kind, info, recs):
    pp = _pp()
    dmc, dfn = str(rng.choice(DISTS)), str(rng.choice(DISTS))
    opts = dict(distribution_mc=dmc, distribution_fn=dfn, n_recordings=len(recs))
    twin = copy.deepcopy(obj)
    rtwin = copy.deepcopy(recs)
    out, exc, rec, _ = guarded(ctx, "plot_pre_and_post_rejection",
                               lambda: pp.plot_pre_and_post_rejection(recs, obj, distribution_mc=dmc, distribution_fn=dfn),
                               obj, recs, {}, info, opts)
    o_before = dict(plot_valid_curves=True, plot_invalid_curves=False, plot_mean_curve=True, plot_frequency_std=True,
                    plot_peak_mean_curve=True, plot_peak_individual_valid_curves=True, plot_peak_individual_invalid_curves=False)
    o_after = dict(o_before, plot_invalid_curves=True, plot_peak_individual_invalid_curves=True)
    before = all_accepted_twin(twin)
    if exc is not None:
        need = {"after:" + k: v for k, v in panel_needs(twin, kind, dmc, dfn, o_after).items()}
        need.update({"before:" + k: v for k, v in panel_needs(before, kind, dmc, dfn, o_before).items()})
        settle_exception(ctx, "plot_pre_and_post_rejection", exc, need, info, opts)
        return
    axs = out[1] if isinstance(out, tuple) and len(out) == 2 else None
    if axs is None or len(axs) != 5:
        ctx.count("panels_not_judged_no_axes_returned")
        return
    titles = [a.get_title() for a in axs]
    bi = [i for i, t in enumerate(titles) if "Before" in t]
    ai = [i for i, t in enumerate(titles) if "After" in t]
    ri = {c: [i for i, t in enumerate(titles) if t.upper().startswith(c.upper() + " ")] for c in ("ns", "ew", "vt")}
    if len(bi) != 1 or len(ai) != 1 or any(len(v) != 1 for v in ri.values()):
        ctx.count("panels_not_judged_titles_do_not_identify_the_panels")
        return
    fname = "plot_pre_and_post_rejection"
    g = judge_panel(ctx, axs[bi[0]], before, kind, dmc, dfn, o_before, info, fname, "before", strict_no_rejected=True)
    all_rows = exact_multiset((arr(twin.frequency), arr(r)) for r in np.asarray(twin.amplitude))
    drawn = exact_multiset(xy(ln) for ln in g.get("accepted", []))
    ctx.check(drawn == all_rows and not g.get("rejected"), "before-panel-all-windows-accepted",
              "the 'before' panel does not show every window of the object as accepted", accepted_style=sum(drawn.values()),
              rejected_style=len(g.get("rejected", [])), n_windows=int(twin.n_curves), function=fname, options=opts, **info)
    judge_panel(ctx, axs[ai[0]], twin, kind, dmc, dfn, o_after, info, fname, "after")
    judge_seismic(ctx, [axs[ri[c][0]] for c in ("ns", "ew", "vt")], rtwin, np.asarray(twin.valid_window_boolean_mask, bool).tolist(),
                  True, info, fname, opts)
    ctx.state(["prepost", dmc, dfn, int(np.sum(twin.valid_window_boolean_mask)), int(twin.n_curves)])


def accepted_peaks(twin, kind):
    hs = hvsrs_of(twin, kind)
    per = [arr(h._main_peak_frq)[np.asarray(h.valid_peak_boolean_mask, bool) & ~np.isnan(h._main_peak_frq)] for h in hs]
    return per


def do_table(ctx, rng, obj, kind, info):
    pp = _pp()
    dmc, dfn = str(rng.choice(DISTS)), str(rng.choice(DISTS))
    opts = dict(distribution_mc=dmc, distribution_fn=dfn)
    twin = copy.deepcopy(obj)
    del CAPTURED[:]
    out, exc, rec, text = guarded(ctx, "summarize_hvsr_statistics",
                                  lambda: pp.summarize_hvsr_statistics(obj, distribution_mc=dmc, distribution_fn=dfn),
                                  obj, None, {}, info, opts)
    w = dict(function="summarize_hvsr_statistics", options=opts, **info)
    peak = grab(twin.mean_curve_peak, dmc)
    if exc is not None:
        need = {"structure": structurally_defined(twin, kind), "mean_curve_peak": peak}
        if kind != "diffuse":
            for nm in ("mean_fn_frequency", "std_fn_frequency", "mean_fn_amplitude", "std_fn_amplitude"):
                need[nm] = grab(getattr(twin, nm), dfn)
        settle_exception(ctx, "summarize_hvsr_statistics", exc, need, info, opts)
        return
    cands = [] if isinstance(peak, Raised) else [peak]
    if kind == "diffuse":
        cands.append((twin.peak_frequency, twin.peak_amplitude))
        caption = text.strip()
    else:
        if len(CAPTURED) != 1:
            ctx.count("tables_not_judged_display_called_%d_times" % len(CAPTURED))
            return
        sty = CAPTURED[0]
        caption = getattr(sty, "caption", None)
        judge_frame(ctx, getattr(sty, "data", sty), twin, kind, dfn, w)
    # caption
    nums = re.findall(r"(?<![\w.])(-?\d+\.\d+|nan|inf)(?![\w])", caption or "")
    if len(nums) == 2 and cands:
        ok = any([f"{float(c[0]):.3f}", f"{float(c[1]):.3f}"] == nums for c in cands)
        ctx.check(ok, "caption-is-mean-curve-peak", "the caption does not quote mean_curve_peak(distribution_mc) to 3 decimals",
                  caption=caption, expected=[[float(c[0]), float(c[1])] for c in cands], **w)
    else:
        ctx.count("captions_not_judged")
    ctx.state(["table", kind, dmc, dfn])


def judge_frame(ctx, df, twin, kind, dfn, w):
    try:
        index = [str(i) for i in df.index]
        cols = [str(c) for c in df.columns]
        values = np.asarray(df.values, dtype=float)
    except Exception:
        ctx.count("tables_not_judged_not_a_numeric_frame")
        return
    ctx.count("tables_observed")
    row = {k: [i for i, s in enumerate(index) if key in s] for k, key in (("f", "Frequency"), ("T", "Period"), ("A", "Amplitude"))}
    col = {"minus": [j for j, c in enumerate(cols) if c.strip().startswith("-1")],
           "plus": [j for j, c in enumerate(cols) if c.strip().startswith("+1")],
           "std": [j for j, c in enumerate(cols) if "Standard Deviation" in c and not c.strip().startswith(("-1", "+1"))],
           "centre": [j for j, c in enumerate(cols) if ("Median" in c or "Mean" in c) and "Standard Deviation" not in c]}
    if any(len(v) != 1 for v in col.values()):
        ctx.count("tables_not_judged_columns_not_identified")
        return
    c = {k: v[0] for k, v in col.items()}
    order = [c["centre"], c["std"], c["minus"], c["plus"]]
    # fn rows (frequency, amplitude) == the object's accessors for distribution_fn
    for key, what in (("f", "frequency"), ("A", "amplitude")):
        if len(row[key]) != 1:
            ctx.count("table_rows_not_identified")
            continue
        want = [grab(getattr(twin, f"mean_fn_{what}"), dfn), grab(getattr(twin, f"std_fn_{what}"), dfn),
                grab(getattr(twin, f"nth_std_fn_{what}"), -1, dfn), grab(getattr(twin, f"nth_std_fn_{what}"), +1, dfn)]
        if any(isinstance(v, Raised) for v in want):
            ctx.count("table_rows_not_judged_statistic_undefined")
            continue
        got = values[row[key][0], order]
        ctx.check(close(got, np.array(want, dtype=float), rtol=1e-12), "table-fn-rows-are-the-statistics",
                  f"the {what} row is not (mean, std, -1 sigma, +1 sigma) of the object's fn {what} for distribution_fn",
                  row=index[row[key][0]], table=got, accessors=np.array(want, dtype=float), **w)
        ctx.count("table_cells_judged", 4)
    # period row
    if len(row["T"]) != 1:
        ctx.count("table_rows_not_identified")
        return
    per = accepted_peaks(twin, kind)
    if any(p.size < 1 for p in per) or sum(p.size for p in per) < 2:
        ctx.count("table_rows_not_judged_statistic_undefined")
        return
    pf = np.concatenate(per)
    if kind == "azimuthal":
        wts = MS.weights([p.size for p in per])
        med, sd = float(MS.wmean(1.0 / pf, wts, "lognormal")), float(MS.wstd(1.0 / pf, wts, "lognormal"))
    else:
        med, sd = float(MS.mean(1.0 / pf, "lognormal")), float(MS.std(1.0 / pf, "lognormal"))
    got = values[row["T"][0], order]
    pair = sorted([float(np.exp(np.log(med) - sd)), float(np.exp(np.log(med) + sd))])
    tol = dict(rtol=1e-9, atol=1e-11 * (abs(np.log(med)) + np.max(np.abs(np.log(pf))) + 1.0))
    if dfn == "lognormal":
        ok = close(got[0], med, rtol=1e-9) and close(got[1], sd, **tol) and close(np.sort(got[2:]), np.array(pair), **tol)
        ctx.check(ok, "table-period-row", "the period row is not (lognormal median, log-std, {exp(mu-s), exp(mu+s)}) of the reciprocal "
                  "accepted peak frequencies", table=got, median=med, log_std=sd, one_sigma_pair=pair, n_peaks=int(pf.size), **w)
        ctx.count("table_cells_judged", 4)
    else:
        if np.all(np.isnan(got)):
            ctx.count("period_row_blank_under_normal_distribution_not_judged")
            return
        ok, n = True, 0
        if np.isfinite(got[0]):
            ok, n = ok and close(got[0], med, rtol=1e-9), n + 1
        if np.isfinite(got[1]):
            ok, n = ok and close(got[1], sd, **tol), n + 1
        ctx.check(ok, "table-period-row", "under distribution_fn='normal' the period row shows values that are not the lognormal "
                  "median / log-std of the reciprocal accepted peak frequencies", table=got, median=med, log_std=sd, **w)
        ctx.count("table_cells_judged", n)


def judge_mesh(ctx, call, twin, dmc, log_x, w):
    """Rows of the contour / surface at the object's azimuths == mean_curve_by_azimuth."""
    if call[2] is None or len(call[2]) < 3:
        ctx.count("surfaces_not_judged_arguments_not_arrays")
        return
    X, Y, Z = call[2]
    want = grab(twin.mean_curve_by_azimuth, dmc)
    if isinstance(want, Raised) or X.ndim != 2 or X.shape != Z.shape or Y.shape != Z.shape:
        ctx.count("surfaces_not_judged_arguments_not_arrays")
        return
    f = arr(twin.frequency)
    az = [float(a) for a in twin.azimuths]
    ok, judged, why = True, 0, ""
    for a, wrow in zip(az, arr(want)):
        rows = [i for i in range(Y.shape[0]) if np.all(Y[i] == a)]
        if len(rows) != 1:
            ok, why = False, f"azimuth {a} is shown on {len(rows)} rows"
            break
        i = rows[0]
        okx = np.array_equal(X[i], f) or (log_x and close(X[i], np.log10(f), rtol=1e-12, atol=1e-15))
        if not (okx and close(Z[i], wrow, rtol=1e-12)):
            ok, why = False, f"row of azimuth {a} is not (frequency, mean curve of that azimuth)"
            break
        judged += 1
    ctx.check(ok, "azimuthal-surface-is-mean-curve-by-azimuth", why, azimuths=az, shape=list(Z.shape), drawn_by=call[0], **w)
    ctx.count("artists_judged:surface_rows", judged)


def judge_az_2d(ctx, ax, rec, twin, dmc, show_peaks, w):
    calls = rec.of("contourf", ax)
    if len(calls) == 1:
        judge_mesh(ctx, calls[0], twin, dmc, False, w)
    else:
        ctx.count("surfaces_not_judged_%d_contourf_calls" % len(calls))
    groups = classify(ax.get_lines())
    mk = groups.get("azimuth_peak_2d", [])
    for k in groups:
        if k != "azimuth_peak_2d":
            ctx.count("lines_not_classified:in_contour_panel", len(groups[k]))
    if not (show_peaks or mk):
        return
    want = grab(twin.mean_curve_peak_by_azimuth, dmc)
    if isinstance(want, Raised):
        return
    ok = (len(mk) == 1) if show_peaks else len(mk) <= 1
    for ln in mk:
        x, y = xy(ln)
        ok = ok and close(x, arr(want[0]), rtol=1e-12) and np.array_equal(y, arr(twin.azimuths))
    ctx.check(ok, "azimuthal-peak-markers", "2-D: the markers are not (mean_curve_peak_by_azimuth frequency, azimuth)",
              n_marker_lines=len(mk), dimension=2, **w)
    ctx.count("artists_judged:azimuth_peaks_2d", sum(xy(ln)[0].size for ln in mk))
    if mk and not show_peaks:
        ctx.count("diagnostic_azimuth_peak_markers_drawn_although_option_off")


def judge_az_3d(ctx, ax, rec, twin, dmc, show_peaks, w):
    calls = rec.of("plot_surface", ax)
    if len(calls) == 1:
        judge_mesh(ctx, calls[0], twin, dmc, True, w)
    else:
        ctx.count("surfaces_not_judged_%d_plot_surface_calls" % len(calls))
    sc = rec.of("scatter", ax)
    if not (show_peaks or sc):
        return
    want = grab(twin.mean_curve_peak_by_azimuth, dmc)
    if isinstance(want, Raised):
        return
    if any(c[2] is None or len(c[2]) < 3 for c in sc):
        ctx.count("azimuth_peak_markers_3d_not_judged")
        return
    ok = (len(sc) == 1) if show_peaks else len(sc) <= 1
    why = f"{len(sc)} scatter calls"
    factor = None
    for c in sc:
        xs, ys, zs = (v.ravel() for v in c[2])
        for a, fp, ap in zip(twin.azimuths, arr(want[0]), arr(want[1])):
            idx = np.flatnonzero(ys == float(a))
            if idx.size != 1:
                ok, why = False, f"azimuth {a} carries {idx.size} markers"
                break
            i = int(idx[0])
            if not (close(xs[i], np.log10(fp), rtol=1e-12, atol=1e-15) or close(xs[i], fp, rtol=1e-12)):
                ok, why = False, f"marker of azimuth {a} is not at the peak frequency of that azimuth's mean curve"
                break
            k = zs[i] / ap
            if factor is None:
                factor = float(k)
            if not (close(k, factor, rtol=1e-12) and 1.0 - 1e-12 <= k <= 1.25):
                ok, why = False, f"marker height of azimuth {a} is not the peak amplitude times the common lift factor"
                break
    ctx.check(ok, "azimuthal-peak-markers", "3-D: " + why, n_scatter_calls=len(sc), lift_factor=factor, dimension=3, **w)
    ctx.count("artists_judged:azimuth_peaks_3d", sum(c[2][0].size for c in sc))
    if factor is not None and not close(factor, 1.0, rtol=1e-12):
        ctx.count("diagnostic_3d_peak_markers_lifted_above_the_surface")


def az_needs(twin, dmc, show_peaks):
    need = {"structure": structurally_defined(twin, "azimuthal"), "mean_curve_by_azimuth": grab(twin.mean_curve_by_azimuth, dmc)}
    if need["structure"] and not isinstance(need["mean_curve_by_azimuth"], Raised):
        need["finite"] = bool(np.all(np.isfinite(arr(need["mean_curve_by_azimuth"]))))
    if show_peaks:
        need["mean_curve_peak_by_azimuth"] = grab(twin.mean_curve_peak_by_azimuth, dmc)
    return need


def do_az_2d(ctx, rng, obj, kind, info):
    import matplotlib.pyplot as plt
    pp = _pp()
    dmc = str(rng.choice(DISTS))
    show = bool(rng.random() < 0.75)
    kw = dict(distribution_mc=dmc, plot_mean_curve_peak_by_azimuth=show)
    extra = {}
    own = None
    r = rng.random()
    if r < 0.35:
        fig, own = plt.subplots(figsize=(3, 2.5), dpi=60)
        kw.update(fig=fig, ax=own)
    elif r < 0.6:
        extra["subplots_kwargs"] = dict(figsize=(3.0, 2.5), dpi=60)
        kw["subplots_kwargs"] = extra["subplots_kwargs"]
    if rng.random() < 0.3:
        extra["contourf_kwargs"] = dict(levels=int(rng.choice([5, 12])))
        kw["contourf_kwargs"] = extra["contourf_kwargs"]
    opts = dict(distribution_mc=dmc, plot_mean_curve_peak_by_azimuth=show, user_axes=own is not None,
                contourf_kwargs=extra.get("contourf_kwargs"))
    twin = copy.deepcopy(obj)
    out, exc, rec, _ = guarded(ctx, "plot_azimuthal_contour_2d", lambda: pp.plot_azimuthal_contour_2d(obj, **kw), obj, None, extra,
                               info, opts)
    if exc is not None:
        settle_exception(ctx, "plot_azimuthal_contour_2d", exc, az_needs(twin, dmc, show), info, opts)
        return
    ax = own
    if ax is None:
        try:
            ax = out[1][0]
        except Exception:
            ctx.count("panels_not_judged_no_axes_returned")
            return
    judge_az_2d(ctx, ax, rec, twin, dmc, show, dict(function="plot_azimuthal_contour_2d", options=opts, **info))
    ctx.state(["2d", dmc, show, own is not None])


def do_az_3d(ctx, rng, obj, kind, info):
    import matplotlib.pyplot as plt
    pp = _pp()
    dmc = str(rng.choice(DISTS))
    show = bool(rng.random() < 0.75)
    kw = dict(distribution_mc=dmc, plot_mean_curve_peak_by_azimuth=show)
    own = None
    if rng.random() < 0.4:
        fig = plt.figure(figsize=(3, 3), dpi=60)
        own = fig.add_subplot(projection="3d")
        kw["ax"] = own
    if rng.random() < 0.3:
        kw.update(camera_elevation=int(rng.integers(10, 60)), camera_azimuth=int(rng.integers(0, 360)))
    opts = dict(distribution_mc=dmc, plot_mean_curve_peak_by_azimuth=show, user_axes=own is not None)
    twin = copy.deepcopy(obj)
    out, exc, rec, _ = guarded(ctx, "plot_azimuthal_contour_3d", lambda: pp.plot_azimuthal_contour_3d(obj, **kw), obj, None, {},
                               info, opts)
    if exc is not None:
        settle_exception(ctx, "plot_azimuthal_contour_3d", exc, az_needs(twin, dmc, show), info, opts)
        return
    ax = own
    if ax is None:
        try:
            ax = out[1]
        except Exception:
            ctx.count("panels_not_judged_no_axes_returned")
            return
    judge_az_3d(ctx, ax, rec, twin, dmc, show, dict(function="plot_azimuthal_contour_3d", options=opts, **info))
    ctx.state(["3d", dmc, show, own is not None])


def do_az_summary(ctx, rng, obj, kind, info):
    pp = _pp()
    dmc, dfn = str(rng.choice(DISTS)), str(rng.choice(DISTS))
    o = single_panel_options(rng, default=bool(rng.random() < 0.3))
    show = bool(rng.random() < 0.75)
    opts = dict(o, distribution_mc=dmc, distribution_fn=dfn, plot_mean_curve_peak_by_azimuth=show)
    twin = copy.deepcopy(obj)
    out, exc, rec, _ = guarded(ctx, "plot_azimuthal_summary",
                               lambda: pp.plot_azimuthal_summary(obj, distribution_mc=dmc, distribution_fn=dfn,
                                                                 plot_mean_curve_peak_by_azimuth=show, **o),
                               obj, None, {}, info, opts)
    # the peak marker may be drawn if either of the two options asks for it (the statement does not define the options)
    o_need = dict(o, plot_peak_mean_curve=o["plot_peak_mean_curve"] or o["plot_mean_curve"])
    if exc is not None:
        need = panel_needs(twin, kind, dmc, dfn, o_need)
        need.update(az_needs(twin, dmc, show))
        settle_exception(ctx, "plot_azimuthal_summary", exc, need, info, opts)
        return
    try:
        ax3, ax2, ax1 = out[1]
    except Exception:
        ctx.count("panels_not_judged_no_axes_returned")
        return
    w = dict(function="plot_azimuthal_summary", options=opts, **info)
    judge_az_3d(ctx, ax3, rec, twin, dmc, show, w)
    judge_az_2d(ctx, ax2, rec, twin, dmc, show, w)
    judge_panel(ctx, ax1, twin, kind, dmc, dfn, o, info, "plot_azimuthal_summary", "summary")
    ctx.state(["summary", dmc, dfn, sorted(k for k, v in o.items() if v), show])


# -- workload ------------------------------------------------------------------------------------
def battery(ctx, rng, obj, kind, steps, recs=None, force=None):
    """Call functions at the current state; returns the number of calls made."""
    info = state_info(obj, kind, steps)
    defined = well_defined(obj, kind)
    if any(np.any(np.asarray(h.valid_window_boolean_mask, bool) & ~np.asarray(h.valid_peak_boolean_mask, bool))
           for h in hvsrs_of(obj, kind)):
        ctx.count("states_with_accepted_windows_without_peak")
    if not defined:
        ctx.count("states_with_an_undefined_statistic")
        if rng.random() > 0.35 and force is None:
            return 0
    if kind == "traditional":
        menu = ["single", "table"] + (["prepost", "3c"] if recs is not None else [])
    elif kind == "azimuthal":
        menu = ["single", "table", "2d", "3d", "summary"]
    else:
        menu = ["single", "table"]
    picks = force if force is not None else [str(rng.choice(menu)), "table"]
    n = 0
    for p in picks:
        if p not in menu:
            continue
        fn = {"single": do_single_panel, "table": do_table, "2d": do_az_2d, "3d": do_az_3d, "summary": do_az_summary}.get(p)
        if fn is not None:
            fn(ctx, rng, obj, kind, info)
        elif p == "prepost":
            do_pre_post(ctx, rng, obj, kind, info, recs)
        else:
            do_seismic(ctx, rng, obj, kind, info, recs)
        n += 1
    if n and is_nontrivial(obj, kind):
        hs = hvsrs_of(obj, kind)
        ctx.nontrivial([kind, picks, [np.asarray(h.valid_window_boolean_mask, bool).tolist() for h in hs],
                        list(obj._search_range_in_hz)])
    return n


def close_figures():
    import matplotlib.pyplot as plt
    plt.close("all")


def fam_traditional(ctx, rng):
    try:
        many = ctx.every(181, 3)              # costly: a long recording (hundreds to more than a thousand windows), ~3 per quick run
        nc = int(rng.choice([520, 750, 1300])) if many else int(rng.integers(2, 21))
        obj, ckind = histories.build_traditional(rng, n_curves=nc, n_freq=16 if many else int(rng.choice([16, 32, 64])))
        steps = []
        if many:
            for steps in histories.random_history(rng, obj, n_steps=2):
                pass
            battery(ctx, rng, obj, "traditional", steps, force=["single", "table"])
            return
        n = battery(ctx, rng, obj, "traditional", steps) if rng.random() < 0.4 else 0
        for steps in histories.random_history(rng, obj, n_steps=int(rng.integers(1, 5))):
            if n < 3 and rng.random() < 0.4:
                n += battery(ctx, rng, obj, "traditional", steps)
        battery(ctx, rng, obj, "traditional", steps, force=["single", "table"] if n == 0 else None)
    finally:
        close_figures()


def fam_recordings(ctx, rng):
    """Traditional result with its windows: pre/post figure and the three-component panels."""
    try:
        k = int(rng.integers(2, 13))
        obj, ckind = histories.build_traditional(rng, n_curves=k, n_freq=int(rng.choice([16, 32])))
        recs = make_recordings(rng, k)
        steps = []
        for steps in histories.random_history(rng, obj, n_steps=int(rng.integers(0, 4))):
            pass
        if not (~obj.valid_window_boolean_mask).any() and rng.random() < 0.7:
            steps = steps + [histories.step_manual(rng, obj, [obj])]
        if rng.random() < 0.3:
            # a rejection written by hand in one line: both masks are bound to ONE array (the plot functions still leave
            # the object as it was and draw that state)
            m = np.asarray(obj.valid_window_boolean_mask, bool) & np.asarray(obj.valid_peak_boolean_mask, bool)
            ok = np.flatnonzero(m)
            if ok.size >= 4:
                m[rng.choice(ok, size=int(rng.integers(1, max(2, ok.size // 3))), replace=False)] = False
            obj.valid_window_boolean_mask = obj.valid_peak_boolean_mask = m
            steps = steps + [["both masks bound to one array", m.astype(int).tolist()]]
            ctx.count("states_with_both_masks_bound_to_one_array")
        elif rng.random() < 0.35 and (~np.asarray(obj.valid_window_boolean_mask, bool)).any():
            # the analyst takes a rejected window's CURVE back into the mean curve and leaves its peak out of the resonance
            # statistics (the two masks are separate public attributes): window accepted, its existing peak rejected
            k = int(rng.choice(np.flatnonzero(~np.asarray(obj.valid_window_boolean_mask, bool))))
            obj.valid_window_boolean_mask[k] = True
            steps = steps + [["curve re-accepted, peak left rejected", k]]
            ctx.count("states_with_an_accepted_window_whose_peak_is_rejected")
        battery(ctx, rng, obj, "traditional", steps, recs=recs, force=["prepost", "3c"] + (["table"] if rng.random() < 0.5 else []))
    finally:
        close_figures()


def fam_azimuthal(ctx, rng):
    try:
        obj = histories.build_azimuthal(rng, n_az=int(rng.integers(1, 6)))
        steps = []
        n = battery(ctx, rng, obj, "azimuthal", steps) if rng.random() < 0.4 else 0
        for steps in histories.random_history(rng, obj, n_steps=int(rng.integers(1, 4))):
            if n < 2 and rng.random() < 0.4:
                n += battery(ctx, rng, obj, "azimuthal", steps)
        battery(ctx, rng, obj, "azimuthal", steps,
                force=[str(rng.choice(["single", "2d", "3d", "summary"])), "table"] if n == 0 else None)
    finally:
        close_figures()


def fam_diffuse(ctx, rng):
    try:
        import hvsrpy
        f, amp, _ = gen.curve_set(rng, n_curves=1, n_freq=int(rng.choice([16, 32, 64, 128])))
        obj = hvsrpy.HvsrDiffuseField(f, amp[0], meta={"processing_method": "diffuse_field"})
        steps = []
        for _ in range(int(rng.integers(0, 3))):
            r = histories.rand_range(rng, obj.frequency)
            obj.update_peaks_bounded(search_range_in_hz=r)
            steps.append(["range", list(r)])
        battery(ctx, rng, obj, "diffuse", steps, force=["single", "table"])
    finally:
        close_figures()


def split_rows(rng, lf, lo, hi):
    """Some windows peak inside (lo, hi), the others only climb through it (their peak lies above it)."""
    f0 = np.sqrt(lo * hi)
    k_in, k_out = int(rng.integers(2, 7)), int(rng.integers(1, 6))
    rows = []
    for _ in range(k_in):
        rows.append(1.0 + rng.uniform(0.3, 2.0) * np.exp(-0.5 * ((lf - np.log(f0 * np.exp(rng.normal(0, 0.05)))) / rng.uniform(0.12, 0.2)) ** 2))
    for _ in range(k_out):
        f1 = hi * float(rng.uniform(2.0, 3.5))
        rows.append(1.0 + rng.uniform(8, 40) * np.exp(-0.5 * ((lf - np.log(f1)) / rng.uniform(0.5, 0.7)) ** 2))
    return np.array(rows)[rng.permutation(len(rows))]


def split_peak_windows(rng, n_azimuths=1):
    import hvsrpy
    n_freq = int(rng.choice([24, 32, 48]))
    f = np.geomspace(10 ** rng.uniform(-1.0, -0.5), 10 ** rng.uniform(1.2, 1.6), n_freq)
    lf = np.log(f)
    lo = float(np.exp(rng.uniform(lf[3], lf[n_freq // 2])))
    hi = lo * float(rng.uniform(1.6, 2.4))
    hs = [hvsrpy.HvsrTraditional(f, split_rows(rng, lf, lo, hi), meta={"processing_method": "traditional"}) for _ in range(n_azimuths)]
    return hs, (lo, hi)


def fam_no_peak_windows(ctx, rng):
    """Windows without a peak in a narrow search range (rejected by the peak search itself), then every function."""
    try:
        import hvsrpy
        if rng.random() < 0.3:
            naz = int(rng.integers(1, 4))
            hs, (lo, hi) = split_peak_windows(rng, naz)
            az = hvsrpy.HvsrAzimuthal(hs, np.sort(rng.choice(np.arange(0, 180, 15.0), naz, replace=False)).tolist(),
                                      meta={"processing_method": "azimuthal"})
            az.update_peaks_bounded(search_range_in_hz=(lo, hi))
            battery(ctx, rng, az, "azimuthal", [["range", [lo, hi]]], force=[str(rng.choice(["single", "2d", "3d", "summary"])), "table"])
            return
        hs, (lo, hi) = split_peak_windows(rng)
        obj = hs[0]
        obj.update_peaks_bounded(search_range_in_hz=(lo, hi))
        steps = [["range", [lo, hi]]]
        recs = make_recordings(rng, obj.n_curves)
        if rng.random() < 0.6:      # accepted windows without a peak: window mask and peak mask differ
            steps = steps + [histories.step_time_domain(rng, obj, obj.n_curves)]
        battery(ctx, rng, obj, "traditional", steps, recs=recs,
                force=["prepost", "single"] + (["3c"] if rng.random() < 0.5 else []) + ["table"])
    finally:
        close_figures()


def or_large(fn):
    def run(ctx, rng):
        return fam_traditional(ctx, rng) if (ctx._idx is not None and ctx._idx % 181 == 3) else fn(ctx, rng)
    return run


FAMILIES = [("traditional-history", fam_traditional), ("recordings-pre-and-post", fam_recordings),
            ("azimuthal-history", fam_azimuthal), ("diffuse-field", fam_diffuse),
            ("windows-without-peak-in-narrow-range", fam_no_peak_windows), ("azimuthal-history-2", fam_azimuthal),
            ("recordings-pre-and-post-2", fam_recordings), ("traditional-history-2", fam_traditional)]
FAMILIES = [(n, or_large(f)) for n, f in FAMILIES]
