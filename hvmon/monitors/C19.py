"""C19 - command-line batch output equals the library pipeline for each file.

Probe: the REAL CLI is started (python -m hvmon.cli.launcher ...) in a scratch working directory with
HVSRPY_VERIF=1, which wraps hvsrpy.cli._process_hvsr in the parent and, through fork, in every Pool
worker: each task logs {pid, file, position of the task in that worker's life, identity and
fft_settings of the settings objects before/after}.  The offline checker reconstructs from the log the
observed schedule (which worker processed which files in which order) and checks exactly-once
processing; the oracle compares every <stem>.csv byte for byte with the CSV written by the library
pipeline for that file alone in a fresh process with freshly loaded settings, and the set of CSV files
found in the working directory with {<stem>.csv of every input}.
"""

import json
import os
import shutil
import subprocess
import sys
import tempfile

import numpy as np

from .. import snap

PROPERTY = "C19"
NUM = 19
RULE = ("cases = a set of 2-8 miniSEED files written by the harness (sampling rates 100/200/250/500 Hz, durations chosen so "
        "that the window length falls on both sides of 2^15 samples and the FFT length chosen for one file differs from "
        "another's, or the record holds exactly 2 / 3 windows' worth of samples; window lengths of whole seconds or lengths that are a whole number of time steps for only some of the batch's sampling rates; names with dotted station codes, stems ending in letters of the extension, .mseed/.miniseed, files in a "
        "sub-directory or given by absolute path) x processing settings (traditional / azimuthal / diffuse field) x distribution options; per case several "
        "batches: orders (all for <= 3 files, random above) x --nproc in {1,2,3,n,16} x injected per-task delays; non-trivial = "
        "a batch with >= 2 files of different FFT length sharing a worker, or >= 2 workers; distinct = observed schedules "
        "(worker -> ordered file list) and (settings kind, rates, nproc, order) signatures")
ASSUMPTIONS = [
    "obspy's miniSEED writer is trusted for producing the inputs; both pipelines read the same files through the same path strings",
    "the reference runs in a fresh interpreter per file with settings re-read from the two JSON files",
    "the schedules observed are those multiprocessing.Pool produces on this machine (fork start method); injected delays widen the set but the evidence only claims the assignments actually logged",
]
NOT_REACHED = ["worker-side task events under spawn / forkserver (the probe is not inherited; outputs are judged)", "file names containing glob metacharacters ([ ] ? *): obspy.read() inside the miniSEED reader expands them as patterns on the unchanged tree too, so the single-file reference is not trustworthy for them", "figure output (--no_figure is always set)", "more than 8 files per batch"]
BUDGET = {"quick": dict(cases=8, seconds=70, shards=4),
          "thorough": dict(cases=256, seconds=900, shards=16)}
REQUIRED = ["mon:csv-equals-library-pipeline", "mon:every-file-processed-exactly-once", "mon:one-output-per-input-file", "task_events", "cli_runs"]

HERE = os.path.dirname(os.path.dirname(os.path.dirname(os.path.abspath(__file__))))


def write_mseed(path, rng, fs, seconds, n=None):
    import obspy
    n = int(fs * seconds) + 1 if n is None else int(n)
    st = obspy.Stream()
    # what the file stores: digitiser counts (most files), counts riding on an offset beyond 2^24 (a 32-bit digitiser), or
    # double-precision ground velocity (a file that was corrected and saved again)
    stored = str(rng.choice(["counts", "counts", "counts-on-a-large-offset", "float64-ground-velocity"]))
    for ch in ("BHN", "BHE", "BHZ"):
        if stored == "counts":
            data = (rng.standard_normal(n) * 1000).astype(np.int32)
        elif stored == "counts-on-a-large-offset":
            data = (rng.standard_normal(n) * 300 + 3.0e7).astype(np.int32)
        else:
            data = rng.standard_normal(n) * 1.0e-6
        tr = obspy.Trace(data=data)
        tr.stats.sampling_rate = float(fs)
        tr.stats.channel = ch
        tr.stats.station = "STN"
        st.append(tr)
    st.write(path, format="MSEED")


def make_settings(rng, d):
    import hvsrpy
    # window lengths: whole seconds, or a length that is a whole number of time steps for SOME of the batch's sampling
    # rates only (70.005 s: 200 Hz; 75.002 s: 500 Hz; 64.0037 s: none) - each file then uses its own whole number of steps
    wl = float(rng.choice([70.0, 80.0, 70.005, 75.002, 64.0037]))
    corners = [[None, None], [None, None], [0.5, 20.0], [0.3, None], [None, 30.0]][int(rng.integers(0, 5))]
    pre = hvsrpy.HvsrPreProcessingSettings(window_length_in_seconds=wl, detrend=str(rng.choice(["linear", "constant"])),
                                           filter_corner_frequencies_in_hz=corners,
                                           orient_to_degrees_from_north=float(rng.choice([0.0, 0.0, 30.0])))
    sm = dict(operator="konno_and_ohmachi", bandwidth=40.0, center_frequencies_in_hz=np.geomspace(0.5, 40, 16))
    kind = str(rng.choice(["traditional", "traditional", "azimuthal", "diffuse_field"]))
    # the settings file may carry an explicit fft_settings dict (un-padded FFT, a user length, or an empty dict)
    fft = [None, None, {"n": None}, {"n": 32768}, {}][int(rng.integers(0, 5))]
    if kind == "diffuse_field" and fft == {"n": None}:
        fft = {"n": 32768}          # un-padded odd lengths are not supported by the PSD path (outside the statement)
    if kind == "traditional":
        proc = hvsrpy.HvsrTraditionalProcessingSettings(smoothing=sm, window_type_and_width=("tukey", 0.1), fft_settings=fft,
                                                        method_to_combine_horizontals=str(rng.choice(["geometric_mean", "squared_average"])))
    elif kind == "azimuthal":
        proc = hvsrpy.HvsrAzimuthalProcessingSettings(smoothing=sm, window_type_and_width=("tukey", 0.1), fft_settings=fft,
                                                      azimuths_in_degrees=np.array([0.0, 45.0, 90.0]))
    else:
        proc = hvsrpy.HvsrDiffuseFieldProcessingSettings(smoothing=sm, window_type_and_width=("tukey", 0.1), fft_settings=fft)
    pre_f, proc_f = os.path.join(d, "pre.json"), os.path.join(d, "proc.json")
    pre.save(pre_f)
    proc.save(proc_f)
    form = "as-saved"
    if rng.random() < 0.45:
        # a settings file written or trimmed by hand: entries that only repeat the class's default are left out, the keys
        # come in another order, the layout is compact or indented, line ends may be CR LF.  It must load to an object equal
        # to the saved one (checked here), so the expected outputs are unchanged.
        form = "hand-written:" + ",".join(rewrite_by_hand(rng, pre_f, pre) + rewrite_by_hand(rng, proc_f, proc))
        for path, obj in ((pre_f, pre), (proc_f, proc)):
            back = hvsrpy.object_io.read_settings_object_from_file(path)
            if snap.norm({a: getattr(back, a) for a in back.attrs}) != snap.norm({a: getattr(obj, a) for a in obj.attrs}):
                raise RuntimeError(f"harness: the hand-written settings file {path} does not load to the saved object")
    return pre_f, proc_f, kind + ("" if fft is None else f" fft_settings={fft}") + f" filter={corners} settings-files={form}", wl


def rewrite_by_hand(rng, path, obj):
    import json
    with open(path) as f:
        data = json.load(f)
    defaults = type(obj)()
    dropped = []
    for key in list(data):
        if key in ("hvsrpy_version", "processing_method", "preprocessing_method", "method_to_combine_horizontals"):
            continue
        if hasattr(defaults, key) and snap.norm(getattr(defaults, key)) == snap.norm(data[key]) and rng.random() < 0.6:
            del data[key]
            dropped.append(key)
    keys = list(data)
    head = [k for k in keys if k in ("hvsrpy_version",)]
    rest = [k for k in keys if k not in head]
    rest = [rest[i] for i in rng.permutation(len(rest))]
    data = {k: data[k] for k in head + rest}
    text = json.dumps(data, indent=[None, 2, 4][int(rng.integers(0, 3))])
    eol = "\r\n" if rng.random() < 0.3 else "\n"
    with open(path, "w", newline="") as f:
        f.write(text.replace("\n", eol) + (eol if rng.random() < 0.5 else ""))
    return [f"{os.path.basename(path)} without {dropped}" + (" CRLF" if eol != "\n" else "")]


def env_for():
    env = dict(os.environ)
    env["PYTHONPATH"] = HERE + os.pathsep + env.get("PYTHONPATH", "")
    env["MPLBACKEND"] = "Agg"
    return env


def run_cli(workdir, pre_f, proc_f, files, nproc, dmc, dfn, delay_seed, start_method=None):
    log = os.path.join(workdir, "events.jsonl")
    if os.path.exists(log):
        os.remove(log)
    env = env_for()
    env.update(HVSRPY_VERIF="1", HVSRPY_VERIF_LOG=log, HVSRPY_VERIF_DELAYS=f"{delay_seed}:150")
    if start_method:
        env["HVSRPY_VERIF_START_METHOD"] = start_method
    cmd = [sys.executable, "-W", "ignore", "-m", "hvmon.cli.launcher", "--no_figure",
           "--preprocessing_settings_file", pre_f, "--processing_settings_file", proc_f,
           "--distribution_mc", dmc, "--distribution_fn", dfn] + ([] if nproc is None else ["--nproc", str(nproc)]) + list(files)
    p = subprocess.run(cmd, cwd=workdir, env=env, capture_output=True, text=True, timeout=900)
    events = []
    if os.path.exists(log):
        with open(log) as f:
            events = [json.loads(l) for l in f if l.strip()]
    return p, events


def run_reference(workdir, pre_f, proc_f, fname, out, dmc, dfn):
    cmd = [sys.executable, "-W", "ignore", "-m", "hvmon.cli.reference", pre_f, proc_f, fname, out, dmc, dfn]
    return subprocess.run(cmd, cwd=workdir, env=env_for(), capture_output=True, text=True, timeout=600)


def schedule_of(events):
    calls = [e for e in events if e["ev"] == "call"]
    pids = []
    for e in sorted(calls, key=lambda e: e["t"]):
        if e["pid"] not in pids:
            pids.append(e["pid"])
    sched = {}
    for e in sorted(calls, key=lambda e: (e["pid"], e["pos"])):
        sched.setdefault(pids.index(e["pid"]), []).append(os.path.basename(e["file"]))
    return sched, calls


def csv_name(fn):
    """<stem>.csv: the input's base name with its last extension replaced."""
    base = os.path.basename(fn)
    return base[:base.rindex(".")] + ".csv"


def fam_batch(ctx, rng):
    d = tempfile.mkdtemp(prefix="c19-", dir=os.environ.get("HVMON_SCRATCH"))
    try:
        nfiles = int(rng.choice([2, 3, 3, 4, 5, 8])) if ctx.tier == "thorough" else int(rng.choice([2, 3, 4, 5, 5]))
        pre_f, proc_f, kind, wl = make_settings(rng, d)
        rates = [int(x) for x in rng.choice([100, 200, 250, 500], nfiles)]
        if len(set(rates)) == 1:
            rates[0] = 500 if rates[0] != 500 else 100
        if 500 not in rates:
            rates[int(rng.integers(0, nfiles))] = 500         # 70-80 s at 500 Hz > 2^15 samples -> FFT length 65536
        files = []
        os.makedirs(os.path.join(d, "data"))
        lengths = []
        for i, fs in enumerate(rates):
            # file names as users have them: station codes with dots, stems that end in letters of the extension,
            # either extension spelling, files in a sub-directory or given by absolute path (output: <stem>.csv in the cwd)
            stem = [f"f{i}_{fs}hz", f"st{i}_e", f"{i}site_s", f"UT.ST{i}.A2_C5{i}", f"rec{i}.m", f"line{i}d", f"n{i}.seed"][int(rng.integers(0, 7))]
            fn = stem + str(rng.choice([".mseed", ".miniseed", ".mseed"]))
            k = rng.random()
            if k < 0.2:
                fn = os.path.join("data", fn)
            elif k < 0.3:
                fn = os.path.join(d, "data", fn)
            elif k < 0.4:
                fn = "./" + fn                                  # as shell completion / find . -name writes it
            elif k < 0.5:
                fn = ["data//" + fn, "data/./" + fn, "./data/" + fn][int(rng.integers(0, 3))]
            # record lengths: a bit more than 2 or 3 windows, or EXACTLY 2 / 3 windows' worth of samples (the last
            # window is then one sample short), or one sample more than that
            if rng.random() < 0.35:
                n_exact = int(round(float(rng.choice([2, 3])) * wl * fs)) + int(rng.choice([0, 0, 1]))
                write_mseed(os.path.join(d, fn), rng, fs, None, n=n_exact)
                lengths.append(n_exact)
            else:
                sec = float(wl * rng.choice([2.1, 3.1]))
                write_mseed(os.path.join(d, fn), rng, fs, sec)
                lengths.append(int(fs * sec) + 1)
            files.append(fn)
        dmc = str(rng.choice(["lognormal", "normal"]))
        dfn = str(rng.choice(["lognormal", "normal"]))
        refdir = os.path.join(d, "ref")
        os.makedirs(refdir)
        refs = {}
        for fn in files:
            out = os.path.join(refdir, csv_name(fn))
            p = run_reference(d, pre_f, proc_f, fn, out, dmc, dfn)
            ctx.count("reference_runs")
            if p.returncode != 0 or not os.path.exists(out):
                ctx.violation("exception:reference-pipeline", "library pipeline failed for a single file", stderr=p.stderr[-1500:], file=fn)
                return
            with open(out, "rb") as f:
                refs[fn] = f.read()
        ctx.describe(kind=kind, window_length=wl, rates=rates, samples=lengths, files=files, distribution_mc=dmc, distribution_fn=dfn)
        nb = 3 if ctx.tier == "quick" else 6
        nprocs = [1, 2, 3, nfiles, 16, None]          # None: the CLI's default (cpu count - 1)
        seen_nontrivial = False
        for b in range(nb):
            order = list(rng.permutation(nfiles)) if b else list(range(nfiles))
            if b == 1:
                order = sorted(range(nfiles), key=lambda i: -rates[i])      # large FFT first, small ones after it
            nproc = nprocs[b % len(nprocs)] if b < 2 else nprocs[int(rng.integers(0, len(nprocs)))]
            batch = [files[i] for i in order]
            for c in os.listdir(d):
                if c.endswith(".csv"):
                    os.remove(os.path.join(d, c))
            # the last batch of some cases runs with spawned (not forked) workers; those do not carry the probe, so only the
            # outputs are judged for them
            start_method = None
            if b == nb - 1 and rng.random() < (0.5 if ctx.tier == "quick" else 0.35):
                start_method = str(rng.choice(["spawn", "forkserver"]))
                nproc = 2 if nproc in (None, 16) else nproc
                ctx.count("batches_with_spawned_workers")
            p, events = run_cli(d, pre_f, proc_f, batch, nproc, dmc, dfn, delay_seed=int(rng.integers(0, 10 ** 6)),
                                start_method=start_method)
            ctx.count("cli_runs")
            ctx.count("task_events", len(events))
            info = dict(kind=kind, rates=rates, order=[int(i) for i in order], nproc=nproc, batch=batch, start_method=start_method or "fork")
            if p.returncode != 0:
                ctx.violation("exception:cli", "the command line interface exited with an error", stderr=p.stderr[-1500:], **info)
                continue
            for e in events:
                if e["ev"] == "lines":
                    for fn_, ls in e["reached"].items():
                        ctx.extra_lines.setdefault(fn_, set()).update(ls)
                    ctx.extra_totals.update(e["totals"])
            sched, calls = schedule_of(events)
            done = sorted(os.path.basename(e["file"]) for e in calls)
            if start_method is None:
              ctx.check(done == sorted(os.path.basename(b) for b in batch) and len([e for e in events if e["ev"] == "return"]) == len(batch),
                      "every-file-processed-exactly-once", "task log: a file was processed twice or not at all",
                      processed=done, **info)
            info["schedule"] = {str(k): v for k, v in sched.items()}
            ctx.state([nproc, sorted(tuple(v) for v in sched.values())])
            # diagnostic: a task that finds an FFT length already present in its settings object
            leaked = [os.path.basename(e["file"]) for e in calls if e.get("proc_fft_before")]
            bad = []
            written = sorted(c for c in os.listdir(d) if c.endswith(".csv"))
            ctx.check(written == sorted(csv_name(fn) for fn in batch), "one-output-per-input-file",
                      "the CSV files found in the working directory are not exactly <stem>.csv of every input file",
                      written=written, expected=sorted(csv_name(fn) for fn in batch), **info)
            for fn in batch:
                c = os.path.join(d, csv_name(fn))
                if not os.path.exists(c):
                    bad.append((fn, "missing"))
                    continue
                with open(c, "rb") as f:
                    got = f.read()
                if got != refs[fn]:
                    # where do they differ (header vs numbers)?
                    gl, rl = got.split(b"\n"), refs[fn].split(b"\n")
                    first = next((i for i, (a, bb) in enumerate(zip(gl, rl)) if a != bb), min(len(gl), len(rl)))
                    bad.append((fn, f"line {first}: {gl[first][:80]!r} != {rl[first][:80]!r}" if first < min(len(gl), len(rl)) else "length"))
            ctx.check(not bad, "csv-equals-library-pipeline", "a CSV written by the batch differs from the library pipeline's "
                      "output for that file alone", differing=bad[:4], tasks_that_found_a_preset_fft_length=leaked, **info)
            multi = any(len(v) >= 2 for v in sched.values()) or len(sched) >= 2
            if multi:
                seen_nontrivial = True
                ctx.nontrivial([kind, rates, nproc, [int(i) for i in order]])
    finally:
        shutil.rmtree(d, ignore_errors=True)


FAMILIES = [("batch", fam_batch)]
