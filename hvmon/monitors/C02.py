"""C02 - smoothing operators are the published normalised kernels.

Events: direct calls of hvsrpy.smoothing.SMOOTHING_OPERATORS[name] (compiled) and of the kernels'
.py_func (interpreted source).  Oracles: models/smoothing.py (independent, vectorised, with the
ambiguity rule), consequences checked on the real output (constant in -> constant out, bounds,
cubic reproduction, linearity, row independence / permutation), compiled-vs-interpreted
differential, and one pass of the same kind of calls under NUMBA_BOUNDSCHECK=1.
"""

import json
import os
import subprocess
import sys
import tempfile

import numpy as np

from ..ctx import close, maxrel
from ..models import smoothing as M

PROPERTY = "C02"
NUM = 2
RULE = ("cases = (operator, FFT grid rfftfreq(n,dt) incl. 0 Hz, 1-40 spectrum rows of a spectrum class, "
        "centre-frequency class, bandwidth) drawn from a seeded generator; a case is non-trivial when at "
        "least one centre frequency has a non-empty window with >= 2 contributing samples and the "
        "spectrum is not constant; distinct = distinct (operator, n, dt, rows, spectrum class, fc class, "
        "bandwidth) signatures")
ASSUMPTIONS = [
    "numpy/scipy arithmetic is trusted; the model sums with numpy dot products (different order than the kernels), tolerance rtol 1e-9 of the largest contributing sample",
    "the Parzen window support |f-fc| <= sqrt(6)*(280*pi/302)/b and the Konno-Ohmachi support 10^(+-3/b) are taken as the published truncations",
    "samples within 1e-9 (relative) of a window edge, or within 1e-6 Hz of the centre, are ambiguous: every admissible outcome is accepted",
    "exception: a sample EXACTLY on the edge of the linear rectangular window where grid, centre and bandwidth are short dyadic numbers (no rounding in any formulation of the comparison) is decided by the closed support |f-fc| <= b/2 that all seven operators of the library use",
    "NUMBA_BOUNDSCHECK=1 turns out-of-range indexing inside the JIT kernels into IndexError (verified on a deliberately broken guard)",
]
NOT_REACHED = ["narrow integer spectra (uint8/int16): Savitzky-Golay adds pairs of samples in the input dtype, so numpy wrap-around applies (seen with uint8; not judged)",
               "non-linear grids for Savitzky-Golay (refused by the code)", "negative frequencies",
               "grids longer than 65537 bins"]
BUDGET = {"quick": dict(cases=3000, seconds=55, shards=4),
          "thorough": dict(cases=600000, seconds=420, shards=16)}
REQUIRED = ["mon:model-equal", "mon:compiled-equals-interpreted", "mon:constant-reproduced",
            "mon:bounded-by-contributing", "mon:linear", "mon:row-independent", "mon:sg-cubic-exact",
            "mon:empty-window-zero", "mon:boundscheck-clean", "mon:earlier-output-keeps-its-values"]

_ops = None


def setup(ctx):
    global _ops
    from hvsrpy import smoothing as S
    _ops = S
    # warm the JIT once with the common signature so that per-case timing is flat
    f = np.fft.rfftfreq(64, 0.01)
    x = np.ones((2, f.size))
    for name in M.OPERATORS:
        S.SMOOTHING_OPERATORS[name](f, x, np.array([5.0]), 3.0 if name == "savitzky_and_golay" else 1.0)


def call(name, f, s, fcs, b, interpreted=False):
    S = _ops
    if not interpreted:
        return S.SMOOTHING_OPERATORS[name](f, s, fcs, b)
    if name == "savitzky_and_golay":
        orig = S._savitzky_and_golay
        S._savitzky_and_golay = orig.py_func
        try:
            return S.savitzky_and_golay(f, s, fcs, b)
        finally:
            S._savitzky_and_golay = orig
    return S.SMOOTHING_OPERATORS[name].py_func(f, s, fcs, b)


# -- generators -----------------------------------------------------------------------------
DTS = [0.001, 0.002, 0.004, 0.005, 0.008, 0.01, 0.02, 0.05, 1 / 75, 1 / 150, 1 / 300, 0.1]
SPEC_CLASSES = ["random", "constant", "spike", "linear", "quadratic", "cubic", "multiples", "wide-range"]
FC_CLASSES = ["log", "on-grid", "off-grid", "low", "tiny", "above", "mixed", "single"]


def gen_bandwidth(rng, name, f):
    fmax = f[-1]
    if name == "konno_and_ohmachi":
        return float(rng.choice([5., 10., 20., 40., 80., 150., rng.uniform(3, 200)]))
    if name == "savitzky_and_golay":
        return float(rng.choice([3, 5, 7, 9, 11, 15, 21]))
    if name in ("parzen", "linear_rectangular", "linear_triangular"):
        return float(fmax * 10 ** rng.uniform(-3, -0.3))
    return float(10 ** rng.uniform(-2, -0.2))


def gen_spectrum(rng, cls, nrows, f):
    nf = f.size
    if cls == "random":
        return rng.random((nrows, nf)) * 10 ** rng.uniform(-6, 6)
    if cls == "constant":
        return np.repeat((rng.random((nrows, 1)) + 0.1) * 10 ** rng.uniform(-6, 6), nf, axis=1)
    if cls == "spike":
        s = np.zeros((nrows, nf))
        for r in range(nrows):
            s[r, rng.integers(0, nf)] = rng.random() + 0.5
        return s
    if cls in ("linear", "quadratic", "cubic"):
        deg = {"linear": 1, "quadratic": 2, "cubic": 3}[cls]
        x = np.arange(nf) / nf
        s = np.zeros((nrows, nf))
        for r in range(nrows):
            c = rng.random(deg + 1)
            s[r] = sum(c[k] * x ** k for k in range(deg + 1))
        return s
    if cls == "multiples":
        base = rng.random(nf) + 0.01
        return np.outer(2.0 ** rng.integers(-8, 8, nrows), base)
    if cls == "wide-range":
        return 10 ** rng.uniform(-12, 12, (nrows, nf))
    raise KeyError(cls)


def gen_fcs(rng, cls, f):
    df = f[1] - f[0]
    fmax = f[-1]
    k = int(rng.integers(1, 40))
    if cls == "log":
        return np.geomspace(max(df * rng.uniform(0.3, 3), 1e-3), fmax * rng.uniform(0.3, 0.999), k)
    if cls == "on-grid":
        return np.sort(rng.choice(f[1:], size=min(k, f.size - 1), replace=False))
    if cls == "off-grid":
        return np.sort(rng.uniform(df, fmax, k))
    if cls == "low":
        return np.sort(rng.uniform(1e-5, 2 * df, k))
    if cls == "tiny":
        return np.array([0.0, 1e-9, 5e-7, 9e-7, 2e-6, df / 2])
    if cls == "above":
        return np.sort(rng.uniform(fmax * 0.9, fmax * 3, k))
    if cls == "single":
        return np.array([float(rng.uniform(df, fmax))])
    return np.sort(np.concatenate([rng.uniform(df, fmax, 5), rng.choice(f[1:], 3), [0.0, fmax, fmax * 1.5]]))


def gen_case(rng, big=False, name=None):
    name = name or M.OPERATORS[int(rng.integers(0, 7))]
    if big:
        n = int(rng.choice([8192, 16384, 32768, 65536, 131072]))
        nrows = int(rng.integers(1, 7))
    else:
        n = int(rng.choice([16, 17, 31, 64, 100, 127, 256, 500, 1024, 2000, 4096]))
        nrows = int(rng.integers(1, 41)) if rng.random() < 0.3 else int(rng.integers(1, 6))
    dt = float(DTS[int(rng.integers(0, len(DTS)))])
    f = np.fft.rfftfreq(n, dt)
    if not big and f.size <= 130 and rng.random() < 0.15:
        nrows = int(f.size)                 # as many spectra as frequency samples: a square array is still one spectrum per ROW
    scls = SPEC_CLASSES[int(rng.integers(0, len(SPEC_CLASSES)))]
    fcls = FC_CLASSES[int(rng.integers(0, len(FC_CLASSES)))]
    b = gen_bandwidth(rng, name, f)
    s = gen_spectrum(rng, scls, nrows, f)
    fcs = gen_fcs(rng, fcls, f)
    # the centre frequencies need not be ascending: descending, shuffled, two neighbours swapped, repeated values
    order = str(rng.choice(["ascending", "ascending", "descending", "shuffled", "swapped-neighbours", "with-repeats"]))
    if order == "descending":
        fcs = fcs[::-1].copy()
    elif order == "shuffled":
        fcs = fcs[rng.permutation(fcs.size)]
    elif order == "swapped-neighbours" and fcs.size >= 2:
        i = int(rng.integers(0, fcs.size - 1))
        fcs = fcs.copy()
        fcs[i], fcs[i + 1] = fcs[i + 1], fcs[i]
    elif order == "with-repeats" and fcs.size >= 2:
        fcs = np.concatenate([fcs, fcs[rng.integers(0, fcs.size, 3)]])
    return dict(name=name, n=n, dt=dt, nrows=nrows, scls=scls, fcls=fcls + "/" + order, b=b), f, s, np.ascontiguousarray(fcs)


# -- monitors -------------------------------------------------------------------------------
def judge(ctx, meta, f, s, fcs, interpreted_too):
    name, b = meta["name"], meta["b"]
    out = call(name, f, s, fcs, b)
    ctx.count("operator_calls")
    ctx.check(isinstance(out, np.ndarray) and out.shape == (s.shape[0], fcs.size), "shape",
              f"output shape {getattr(out, 'shape', None)}", **meta)
    res = M.smooth(name, f, s, fcs, b)
    bad = M.mismatches(out, res)
    ctx.count("centre_frequencies_judged", int(fcs.size - len(res.unbounded)))
    ctx.count("fcs_with_enumerated_alternatives", len(res.alts))
    ctx.count("ambiguous_skipped", len(res.unbounded))
    if bad:
        r, j = bad[0]
        ctx.check(False, "model-equal", f"{name}: output differs from the normalised kernel average at "
                  f"{len(bad)} centre frequencies", fc=float(fcs[j]), got=float(out[r, j]),
                  want=float(res.base[r, j]), row=r, **meta)
    else:
        ctx.check(True, "model-equal")
    # zero where the window is empty (model decides emptiness; ambiguous ones have alternatives)
    empt = [j for j in np.flatnonzero(res.empty) if j not in res.alts and j not in res.unbounded]
    if empt:
        ctx.check(bool(np.all(out[:, empt] == 0)), "empty-window-zero",
                  f"{name}: non-zero output for an empty window", fc=[float(fcs[j]) for j in empt[:5]],
                  got=out[:, empt][:, :5], **meta)
    # bounds for the non-negative kernels
    if name in M.NONNEGATIVE:
        judged = [j for j in range(fcs.size) if j not in res.alts and j not in res.unbounded and not res.empty[j]]
        if judged:
            lo, hi, o = res.lo[:, judged], res.hi[:, judged], out[:, judged]
            tol = 1e-9 * np.maximum(np.abs(hi), 1e-300)
            ctx.check(bool(np.all(o >= lo - tol) and np.all(o <= hi + tol)), "bounded-by-contributing",
                      f"{name}: output outside [min,max] of contributing samples", **meta)
    if meta["scls"] == "constant":
        judged = [j for j in range(fcs.size) if not res.empty[j] and j not in res.alts and j not in res.unbounded]
        if judged:
            want = np.repeat(s[:, :1], len(judged), axis=1)
            ctx.check(close(out[:, judged], want, rtol=1e-9), "constant-reproduced",
                      f"{name}: constant spectrum not reproduced", maxrel=maxrel(out[:, judged], want), **meta)
    if interpreted_too:
        ref = call(name, f, s, fcs, b, interpreted=True)
        okc = close(out, ref, rtol=1e-12, atol=1e-12 * float(np.max(np.abs(s))))
        if not okc:
            # re-examine under the ambiguity rule: only non-ambiguous columns count
            cols = [j for j in range(fcs.size) if j not in res.alts and j not in res.unbounded]
            okc = close(out[:, cols], ref[:, cols], rtol=1e-12, atol=1e-12 * float(np.max(np.abs(s))))
            if not okc and not bad and not M.mismatches(ref, res):
                # ill-conditioned windows (every contributing sample sits at the window's edge, weights ~1e-6): both
                # the compiled and the interpreted result lie within the model's conditioning-aware tolerance
                ctx.count("compiled_vs_interpreted_settled_by_model_tolerance")
                okc = True
        ctx.check(okc, "compiled-equals-interpreted", f"{name}: compiled kernel != interpreted source",
                  maxrel=maxrel(out, ref), **meta)
    nontriv = meta["scls"] != "constant" and bool(np.any(~res.empty))
    if nontriv:
        ctx.nontrivial([name, meta["n"], meta["dt"], meta["nrows"], meta["scls"], meta["fcls"], round(b, 6)])
    ctx.state([name, meta["scls"], meta["fcls"]])
    return out, res


def fam_model_small(ctx, rng):
    meta, f, s, fcs = gen_case(rng)
    ctx.describe(**meta, fcs=fcs)
    judge(ctx, meta, f, s, fcs, interpreted_too=(meta["n"] <= 1024 and meta["nrows"] <= 8))


def fam_model_fft(ctx, rng):
    meta, f, s, fcs = gen_case(rng, big=True)
    ctx.describe(**meta, fcs=fcs)
    judge(ctx, meta, f, s, fcs, interpreted_too=False)


def fam_edges(ctx, rng):
    """Centre frequencies placed so that grid samples sit exactly on / next to window edges."""
    name = M.NONNEGATIVE[int(rng.integers(0, 6))]
    n = int(rng.choice([64, 128, 256, 1000]))
    dt = float(rng.choice([0.01, 0.005, 0.02]))
    f = np.fft.rfftfreq(n, dt)
    b = gen_bandwidth(rng, name, f)
    tgt = f[rng.integers(2, f.size, 12)]
    lo, hi = M._half_width_hz(name, 1.0, b) if not (name.startswith("linear") or name == "parzen") else (None, None)
    fcs = []
    for t in tgt:
        if lo is not None:   # multiplicative windows: sample t on the upper / lower edge
            fcs += [t / hi, t / lo, t / hi * (1 + 1e-7), t / lo * (1 - 1e-7)]
        else:
            l0, h0 = M._half_width_hz(name, 0.0, b)
            fcs += [t - h0, t - l0, t - h0 + 1e-7, t - l0 - 1e-7]
    fcs = np.array(sorted(x for x in fcs if x > 1e-5))
    s = gen_spectrum(rng, "random", int(rng.integers(1, 4)), f)
    meta = dict(name=name, n=n, dt=dt, nrows=s.shape[0], scls="random", fcls="edge", b=b)
    ctx.describe(**meta, fcs=fcs)
    judge(ctx, meta, f, s, fcs, interpreted_too=True)


def fam_dyadic_edges(ctx, rng):
    """FFT grids whose bin spacing is exactly representable (power-of-two length and sampling rate, e.g. 128 Hz / 4096
    samples), centre frequencies on a bin or midway between two, bandwidths that are whole multiples of the spacing:
    samples then sit EXACTLY on the edges of the linear windows, without any rounding, and only the (closed) support
    convention decides."""
    name = str(rng.choice(["linear_rectangular", "linear_rectangular", "linear_triangular", "parzen", "log_rectangular",
                           "konno_and_ohmachi"]))
    n = int(2 ** rng.integers(6, 13))
    fs_ = float(2 ** rng.integers(5, 10))
    f = np.fft.rfftfreq(n, 1.0 / fs_)
    df = fs_ / n
    k = int(rng.integers(2, 24))
    idx = rng.integers(2, f.size - 1, k)
    fcs = f[idx] + df * rng.choice([0.0, 0.0, 0.5], k)
    if name.startswith("linear"):
        b = float(df * rng.integers(1, 17))
    else:
        b = gen_bandwidth(rng, name, f)
    scls = str(rng.choice(["random", "constant", "random"]))
    s = gen_spectrum(rng, scls, int(rng.integers(1, 4)), f)
    meta = dict(name=name, n=n, dt=1.0 / fs_, nrows=s.shape[0], scls=scls, fcls="dyadic-edge", b=b)
    ctx.describe(**meta, fcs=fcs)
    judge(ctx, meta, f, s, np.ascontiguousarray(fcs), interpreted_too=(n <= 1024))


def fam_linear_rows(ctx, rng):
    """Linearity and row independence / permutation on the real output only."""
    meta, f, x, fcs = gen_case(rng)
    name, b = meta["name"], meta["b"]
    y = gen_spectrum(rng, "random", x.shape[0], f)
    al, be = (float(v) for v in rng.uniform(0.1, 5, 2))
    ctx.describe(**meta, alpha=al, beta=be)
    sx, sy = call(name, f, x, fcs, b), call(name, f, y, fcs, b)
    sxy = call(name, f, al * x + be * y, fcs, b)
    scale = al * np.max(np.abs(x), axis=1, keepdims=True) + be * np.max(np.abs(y), axis=1, keepdims=True)
    ok = bool(np.all(np.abs(sxy - (al * sx + be * sy)) <= 1e-9 * scale))
    ctx.check(ok, "linear", f"{name}: S(ax+by) != aS(x)+bS(y)", **meta)
    # rows: each row alone, and a permutation of the rows
    nrows = x.shape[0]
    r = int(rng.integers(0, nrows))
    single = call(name, f, np.ascontiguousarray(x[r:r + 1]), fcs, b)
    ok1 = close(single[0], sx[r], rtol=1e-12, atol=1e-12 * float(np.max(np.abs(x[r]))))
    perm = rng.permutation(nrows)
    sp = call(name, f, np.ascontiguousarray(x[perm]), fcs, b)
    ok2 = close(sp, sx[perm], rtol=1e-12, atol=1e-12 * float(np.max(np.abs(x))))
    ctx.check(ok1 and ok2, "row-independent", f"{name}: a row's result depends on the other rows",
              row=r, single_ok=ok1, perm_ok=ok2, **meta)
    ctx.count("operator_calls", 5)
    if nrows > 1:
        ctx.nontrivial(["rows", name, meta["n"], meta["dt"], nrows, round(b, 6)])


def fam_reused_buffers(ctx, rng):
    """A script that loops over recordings keeps ONE frequency / spectrum / centre-frequency buffer and refills it.

    Each call must answer for the content the buffers hold at that call (not for what the same array object held
    at an earlier call), and an output handed out earlier must keep its values when the operator is called again.
    """
    name = M.OPERATORS[int(rng.integers(0, 7))]
    if rng.random() < 0.4:
        name = "savitzky_and_golay"
    n = int(rng.choice([64, 100, 256, 500, 1024]))
    nrows = int(rng.integers(1, 5))
    fbuf = np.empty(n // 2 + 1)
    sbuf = np.empty((nrows, n // 2 + 1))
    ncalls = int(rng.integers(2, 5))
    held = []
    for k in range(ncalls):
        dt = float(DTS[int(rng.integers(0, len(DTS)))])
        f = np.fft.rfftfreq(n, dt)
        if name != "savitzky_and_golay" and rng.random() < 0.3:
            f = f + float(rng.uniform(0, 0.5)) * f[1]          # shifted origin
        fbuf[:] = f
        scls = SPEC_CLASSES[int(rng.integers(0, len(SPEC_CLASSES)))]
        sbuf[:] = gen_spectrum(rng, scls, nrows, fbuf)
        fcls = FC_CLASSES[int(rng.integers(0, len(FC_CLASSES)))]
        fcs = np.ascontiguousarray(gen_fcs(rng, fcls, fbuf))
        if k == 0:
            fcbuf = fcs.copy()
        elif fcs.size >= fcbuf.size and rng.random() < 0.7:
            fcbuf[:] = fcs[:fcbuf.size]                          # same object, new content
            fcs = fcbuf
        b = gen_bandwidth(rng, name, fbuf)
        meta = dict(name=name, n=n, dt=dt, nrows=nrows, scls=scls, fcls=fcls + "/reused-buffers", b=b, call_number=k)
        ctx.describe(**meta, fcs=fcs)
        out, _ = judge(ctx, meta, fbuf, sbuf, fcs, interpreted_too=False)
        for k0, (o_ref, o_copy) in enumerate(held):
            ctx.check(bool(np.array_equal(o_ref, o_copy, equal_nan=True)), "earlier-output-keeps-its-values",
                      f"{name}: the array returned by call {k0} changed during call {k}", **meta)
        held.append((out, np.array(out)))
    ctx.count("cases_with_buffers_refilled_in_place")


def fam_sg_cubic(ctx, rng):
    """Savitzky-Golay reproduces cubic polynomials of the bin index exactly (and the interior only)."""
    n = int(rng.choice([64, 200, 512, 2048]))
    dt = float(rng.choice([0.01, 0.004, 1 / 75]))
    f = np.fft.rfftfreq(n, dt)
    m = int(rng.choice([5, 7, 9, 11, 15, 21]))
    h = (m - 1) // 2
    nrows = int(rng.integers(1, 5))
    idx = np.arange(f.size, dtype=float)
    c = rng.uniform(-1, 1, (nrows, 4))
    x0 = f.size / 2
    s = sum(c[:, k:k + 1] * ((idx - x0) / f.size) ** k for k in range(4))
    targets = np.unique(np.concatenate([rng.integers(0, f.size, 20), [0, 1, h, h + 1, f.size - 1 - h, f.size - h, f.size - 1]]))
    fcs = f[targets]
    meta = dict(name="savitzky_and_golay", n=n, dt=dt, nrows=nrows, scls="cubic-signed", fcls="on-grid", b=float(m))
    ctx.describe(**meta, targets=targets)
    out = call("savitzky_and_golay", f, s, fcs, float(m))
    interior = (targets - h >= 1) & (targets + h <= f.size - 1)
    ok = bool(np.all(np.abs(out[:, interior] - s[:, targets[interior]]) <= 1e-9 * np.max(np.abs(s))))
    ctx.check(ok, "sg-cubic-exact", "Savitzky-Golay does not reproduce a cubic polynomial", **meta)
    ctx.check(bool(np.all(out[:, ~interior] == 0)), "empty-window-zero",
              "Savitzky-Golay returns non-zero where its window leaves the spectrum / touches bin 0", **meta)
    ctx.count("operator_calls")
    ctx.nontrivial(["sg", n, dt, m, nrows])
    judge(ctx, meta, f, s, fcs, interpreted_too=True)


def fam_boundscheck(ctx, rng):
    """One bounds-checked pass per run (shard 0, first time this family comes up)."""
    if not ctx.once_per_run("boundscheck"):
        return fam_model_small(ctx, rng)
    ctx.count("boundscheck_runs")
    ncalls = 150 if ctx.tier == "quick" else 2500
    scratch = tempfile.mkdtemp(prefix="hvmon-nbchk-", dir=os.environ.get("HVMON_SCRATCH"))
    out = os.path.join(scratch, "out.json")
    env = dict(os.environ, NUMBA_BOUNDSCHECK="1", NUMBA_CACHE_DIR=os.path.join(scratch, "cache"))
    ctx.describe(kind="NUMBA_BOUNDSCHECK=1 pass", calls=ncalls)
    p = subprocess.run([sys.executable, "-W", "ignore", "-m", "hvmon.monitors.C02", "--boundscheck",
                        str(ctx.seed), str(ncalls), out], env=env, capture_output=True, text=True, timeout=1500)
    if p.returncode != 0 or not os.path.exists(out):
        ctx.violation("exception:boundscheck-pass", "bounds-checked pass died", stderr=p.stderr[-2000:])
        return
    with open(out) as fh:
        r = json.load(fh)
    ctx.count("boundscheck_calls", r["calls"])
    ctx.check(not r["index_errors"], "boundscheck-clean",
              f"out-of-range index inside a compiled kernel ({len(r['index_errors'])} calls)",
              first=r["index_errors"][:3])
    ctx.check(not r["other_errors"], "boundscheck-no-other-error", "unexpected exception under bounds checking",
              first=r["other_errors"][:3])


def _boundscheck_main(seed, ncalls, out):
    """Child process: kernels compiled with bounds checking; every IndexError is an event."""
    import numba
    assert numba.config.BOUNDSCHECK == 1, "NUMBA_BOUNDSCHECK not active"
    setup(None)
    index_errors, other = [], []
    calls = 0
    for i in range(ncalls):
        rng = np.random.default_rng([seed, NUM, 777, i])
        name = M.OPERATORS[i % 7] if i % 3 else "savitzky_and_golay"
        meta, f, s, fcs = gen_case(rng, name=name)
        if name == "savitzky_and_golay":   # aim at both ends of the spectrum and beyond
            df = f[1] - f[0]
            fcs = np.concatenate([fcs, f[:12], f[-12:], f[-1] + df * np.arange(1, 30), [-5 * df, 1e9 * df]])
        try:
            call(name, f, s, fcs, meta["b"])
            calls += 1
        except IndexError as e:
            index_errors.append({**{k: (float(v) if isinstance(v, float) else v) for k, v in meta.items()}, "error": str(e)})
        except Exception as e:  # noqa
            other.append({"name": name, "error": repr(e)})
    with open(out, "w") as fh:
        json.dump({"calls": calls, "index_errors": index_errors, "other_errors": other}, fh)


def fam_fresh_process_sequences(ctx, rng):
    """A user who tries one bandwidth after another in a NEW interpreter: the first calls an operator ever receives in a
    process, in ascending, descending or mixed order of bandwidth (and of grid length).  In the long-lived shard process
    whatever a first call leaves behind in the module is set once and for all by the largest request seen so far; only a
    fresh process shows the early part of such a history.  A handful per run (index-based), each call judged by the model."""
    ctx.count("fresh_process_sequences")
    scratch = tempfile.mkdtemp(prefix="hvmon-c02seq-", dir=os.environ.get("HVMON_SCRATCH"))
    out = os.path.join(scratch, "out.json")
    sub_seed = int(rng.integers(0, 2 ** 31))
    ctx.describe(kind="fresh-process call sequences", sub_seed=sub_seed)
    try:
        p = subprocess.run([sys.executable, "-W", "ignore", "-m", "hvmon.monitors.C02", "--sequences", str(sub_seed), out],
                           capture_output=True, text=True, timeout=600)
        if p.returncode != 0 or not os.path.exists(out):
            ctx.violation("exception:fresh-process-sequences", "the child process died", stderr=p.stderr[-2000:])
            return
        with open(out) as fh:
            r = json.load(fh)
    finally:
        if os.path.exists(out):
            os.remove(out)
        os.rmdir(scratch)
    ctx.count("fresh_process_calls", r["calls"])
    ctx.nontrivial(["fresh-process", r["orders"]])
    ctx.check(not r["bad"], "model-equal", f"a call in a fresh process differs from the normalised kernel average after "
              f"{len(r['bad'])} of {r['calls']} calls of a bandwidth sequence", mechanism="call-history-in-a-fresh-process",
              first=r["bad"][:4], sub_seed=sub_seed)


def _sequences_main(seed, out):
    """Child process: no warm-up, one sequence of calls per operator, every call against the model."""
    setup(None)
    rng = np.random.default_rng([seed, NUM, 4242])
    bad, calls, orders = [], 0, []
    names = list(M.OPERATORS)
    names.remove("savitzky_and_golay")
    for name in ["savitzky_and_golay"] + [names[int(i)] for i in rng.permutation(len(names))[:3]]:
        k = int(rng.integers(3, 7))
        order = str(rng.choice(["ascending", "ascending", "descending", "mixed"]))
        if name == "savitzky_and_golay":
            bs = [float(b) for b in rng.choice(np.arange(3, 33, 2), size=k, replace=False)]
        else:
            n0 = int(rng.choice([64, 256, 1024]))
            bs = [gen_bandwidth(rng, name, np.fft.rfftfreq(n0, 0.01)) for _ in range(k)]
        bs = sorted(bs) if order == "ascending" else sorted(bs, reverse=True) if order == "descending" else bs
        orders.append([name, order, k])
        for j, b in enumerate(bs):
            n = int(rng.choice([64, 100, 256, 1024, 2000]))
            f = np.fft.rfftfreq(n, 0.01)
            s = gen_spectrum(rng, str(rng.choice(["constant", "random", "cubic"])), int(rng.integers(1, 4)), f)
            fcs = np.ascontiguousarray(gen_fcs(rng, str(rng.choice(["log", "on-grid", "off-grid"])), f))
            got = call(name, f, s, fcs, b)
            calls += 1
            res = M.smooth(name, f, s, fcs, b)
            mm = M.mismatches(got, res)
            if mm:
                r, c = mm[0]
                bad.append({"name": name, "order": order, "call_index": j, "bandwidths": bs, "n": n, "fc": float(fcs[c]),
                            "got": float(got[r, c]), "want": float(res.base[r, c])})
    with open(out, "w") as fh:
        json.dump({"calls": calls, "bad": bad, "orders": orders}, fh)


_COMPILED_DTYPE_PAIRS = set()


def fam_dtypes(ctx, rng):
    """Spectra that are not float64 (integer counts, float32): the result is still the kernel average (computed in double
    precision), not a truncated / narrowed copy of it.  The interpreted source is always exercised; the compiled kernel for at
    most four (operator, dtype) pairs per shard (each is a separate numba specialisation, ~1.5 s of compile time)."""
    name = M.OPERATORS[int(rng.integers(0, 7))]
    dtype = [np.float32, np.int64, np.int32][int(rng.integers(0, 3))]
    n = int(rng.choice([64, 256, 1024]))
    dt = float(rng.choice([0.01, 0.005]))
    f = np.fft.rfftfreq(n, dt)
    nrows = int(rng.integers(1, 4))
    if np.issubdtype(dtype, np.integer):
        s = rng.integers(0, 200, (nrows, f.size)).astype(dtype)
    else:
        s = (rng.random((nrows, f.size)) * 100).astype(dtype)
    b = gen_bandwidth(rng, name, f)
    fcs = np.sort(rng.uniform(f[2], f[-3], 12))
    meta = dict(name=name, n=n, dt=dt, nrows=nrows, scls="random-" + np.dtype(dtype).name, fcls="off-grid", b=b)
    ctx.describe(**meta, fcs=fcs)
    res = M.smooth(name, f, s.astype(float), fcs, b)
    outs = {"interpreted": np.asarray(call(name, f, s, fcs, b, interpreted=True), dtype=float)}
    pair = (name, np.dtype(dtype).name)
    if pair in _COMPILED_DTYPE_PAIRS or len(_COMPILED_DTYPE_PAIRS) < 4:
        _COMPILED_DTYPE_PAIRS.add(pair)
        outs["compiled"] = np.asarray(call(name, f, s, fcs, b), dtype=float)
    for how, out in outs.items():
        # single-precision input may be combined in single precision (Savitzky-Golay adds pairs of samples first)
        bad = M.mismatches(out, res, rtol=1e-5 if dtype is np.float32 else 1e-9)
        ctx.check(not bad, "model-equal", f"{name} ({how}) on a {np.dtype(dtype).name} spectrum: output differs from the normalised "
                  f"kernel average at {len(bad)} centre frequencies", how=how,
                  got=[float(out[r, j]) for r, j in bad[:3]], want=[float(res.base[r, j]) for r, j in bad[:3]], **meta)
    ctx.count("operator_calls", len(outs))
    ctx.nontrivial(["dtype", name, np.dtype(dtype).name, n, nrows])
    ctx.state([name, np.dtype(dtype).name])


FAMILIES = [("non-float64-spectra", fam_dtypes), ("buffers-refilled-in-place", fam_reused_buffers), ("model-small-grid", fam_model_small), ("model-fft-grid", fam_model_fft),
            ("window-edges", fam_edges), ("linearity-rows", fam_linear_rows),
            ("sg-cubic", fam_sg_cubic), ("model-small-grid-2", fam_model_small),
            ("boundscheck", fam_boundscheck), ("exactly-representable-grid-edges", fam_dyadic_edges)]


def _or_fresh_process(fn):
    """Whatever the family, the cases with index 7 mod 499 (six per quick run) are a fresh-process call sequence."""
    def run(ctx, rng):
        return fam_fresh_process_sequences(ctx, rng) if ctx.every(499, 7) else fn(ctx, rng)
    return run


FAMILIES = [(n, _or_fresh_process(f)) for n, f in FAMILIES]

if __name__ == "__main__":
    if len(sys.argv) > 1 and sys.argv[1] == "--boundscheck":
        _boundscheck_main(int(sys.argv[2]), int(sys.argv[3]), sys.argv[4])
    if len(sys.argv) > 1 and sys.argv[1] == "--sequences":
        _sequences_main(int(sys.argv[2]), sys.argv[3])
