"""C12 - HVSR results survive a write/read round trip after any history.

Probes: write_hvsr_object_to_file / read_hvsr_object_from_file at their boundary with full object
snapshots, plus an independent parse of the written file (JSON header + numeric columns read with
Python float(), not with hvsrpy/numpy.loadtxt).
"""

import json
import os
import tempfile

import numpy as np

from .. import gen, histories, snap
from ..ctx import biteq, biteq_nan
from . import C05, C11

PROPERTY = "C12"
NUM = 12
RULE = ("cases = traditional / azimuthal (1-8 azimuths incl. non-integer azimuths, unequal window counts) / diffuse-field "
        "results, built directly or produced by process() on small synthetic windows, after a history of 0-5 steps "
        "(range updates, FDWRA, time-domain and manual rejections); written with distribution_mc/fn in {normal,lognormal}^2; "
        "only states with >= 2 accepted windows (>= 1 per azimuth) are written; non-trivial = at least one rejected window or "
        "a bounded search range; distinct = (kind, sizes, step kinds, masks, range, distributions) signatures")
ASSUMPTIONS = [
    "azimuth values are written with Python's float repr; azimuths below 1e-4 (scientific notation) are not generated",
    "meta content is compared as a diagnostic only (the statement lists frequencies, curves, masks, search range, peaks, statistics and the derived columns)",
]
NOT_REACHED = ["find_peaks_kwargs other than height / prominence", "azimuths printed in scientific notation", "results with a single accepted window (std curve undefined)"]
BUDGET = {"quick": dict(cases=500, seconds=60, shards=4),
          "thorough": dict(cases=30000, seconds=600, shards=16)}
REQUIRED = ["mon:curves-bit-identical", "mon:masks-identical", "mon:search-range-and-peaks-identical",
            "mon:statistics-identical", "mon:file-derived-columns-are-the-objects", "mon:write-leaves-object-unchanged",
            "mon:file-curve-columns-are-the-objects"]


def parse_file(path):
    """Independent parse: (meta dict, column header list, 2-D list of floats)."""
    head, rows = [], []
    with open(path, "r", encoding="utf-8") as f:
        for line in f:
            if line.startswith("#"):
                head.append(line[2:].rstrip("\n"))
            elif line.strip():
                rows.append([float(tok) for tok in line.strip().split(",")])
    meta = json.loads("\n".join(head[:-1]))
    return meta, head[-1].split(","), np.array(rows, dtype=float)


def core(obj):
    """What must survive: frequencies, curves, masks, search range, peaks."""
    import hvsrpy
    if isinstance(obj, hvsrpy.HvsrAzimuthal):
        return {"azimuths": [float(a) for a in obj.azimuths], "hvsrs": [core(h) for h in obj.hvsrs]}
    d = {"frequency": np.array(obj.frequency), "amplitude": np.array(obj.amplitude),
         "search_range": tuple(obj._search_range_in_hz)}
    if isinstance(obj, hvsrpy.HvsrTraditional):
        d.update(vw=np.array(obj.valid_window_boolean_mask), vp=np.array(obj.valid_peak_boolean_mask),
                 pf=np.array(obj._main_peak_frq), pa=np.array(obj._main_peak_amp))
    else:
        d.update(pf=np.array(obj.peak_frequency), pa=np.array(obj.peak_amplitude))
    return d


def stats(obj, dist):
    import hvsrpy
    if isinstance(obj, hvsrpy.HvsrAzimuthal):
        return C11.accessors(obj, dist)
    if isinstance(obj, hvsrpy.HvsrTraditional):
        return C05.accessors(obj, dist, [1.0, -2.0])
    out = {"mean_curve": obj.mean_curve()}
    try:
        out["mean_curve_peak"] = obj.mean_curve_peak(search_range_in_hz=obj._search_range_in_hz)
    except ValueError:
        out["mean_curve_peak"] = ("raises", "ValueError")
    return out


def writable(obj):
    import hvsrpy
    if isinstance(obj, hvsrpy.HvsrAzimuthal):
        return all(h.valid_window_boolean_mask.sum() >= 1 and (h.valid_peak_boolean_mask.sum() >= 1) for h in obj.hvsrs) and \
            sum(int(h.valid_window_boolean_mask.sum()) for h in obj.hvsrs) >= 2 and \
            len({tuple(h._search_range_in_hz) for h in obj.hvsrs}) == 1
    if isinstance(obj, hvsrpy.HvsrTraditional):
        return obj.valid_window_boolean_mask.sum() >= 2
    return True


def round_trip(ctx, obj, kind, steps, rng):
    import hvsrpy
    dmc = str(rng.choice(["lognormal", "normal"]))
    dfn = str(rng.choice(["lognormal", "normal"]))
    info = dict(kind=kind, distribution_mc=dmc, distribution_fn=dfn, steps=[s[0] for s in steps][-5:])
    before_core = snap.snap(core(obj))
    before_all = snap.snap(obj)
    st_before = {d: stats(obj, d) for d in ("lognormal", "normal")}
    if kind != "diffuse":
        with np.errstate(all="ignore"):
            try:
                want_mean, want_std = np.array(obj.mean_curve(dmc)), np.array(obj.std_curve(dmc))
            except Exception:
                ctx.count("states_not_written_curve_statistics_undefined")
                return False
    d = tempfile.mkdtemp(prefix="c12-", dir=os.environ.get("HVMON_SCRATCH"))
    path = os.path.join(d, "out.csv")
    import pathlib
    path_arg = pathlib.Path(path) if rng.random() < 0.3 else path        # str or path-like file names
    try:
        with np.errstate(all="ignore"):
            # the documented signature is (hvsr, fname, distribution_mc="lognormal", distribution_fn="lognormal"): every
            # way of calling it asks for the same file (an argument equal to its default may also be left out)
            forms = ["keywords", "both-positional", "mc-positional-fn-keyword", "all-keywords-other-order"]
            if dfn == "lognormal":
                forms.append("mc-positional-only")
            if dmc == "lognormal":
                forms.append("fn-keyword-only")
            form = forms[int(rng.integers(0, len(forms)))]
            info = dict(info, call_form=form)
            ctx.count("write_call_form:" + form)
            if form == "keywords":
                hvsrpy.write_hvsr_object_to_file(obj, path_arg, distribution_mc=dmc, distribution_fn=dfn)
            elif form == "both-positional":
                hvsrpy.write_hvsr_object_to_file(obj, path_arg, dmc, dfn)
            elif form == "mc-positional-fn-keyword":
                hvsrpy.write_hvsr_object_to_file(obj, path_arg, dmc, distribution_fn=dfn)
            elif form == "all-keywords-other-order":
                hvsrpy.write_hvsr_object_to_file(distribution_fn=dfn, fname=path_arg, hvsr=obj, distribution_mc=dmc)
            elif form == "mc-positional-only":
                hvsrpy.write_hvsr_object_to_file(obj, path_arg, dmc)
            else:
                hvsrpy.write_hvsr_object_to_file(obj, path_arg, distribution_fn=dfn)
        ctx.count("writes")
        dd = snap.diff(before_all, snap.snap(obj))
        ctx.check(not dd, "write-leaves-object-unchanged", "writing changed the object", differences=dd[:5], **info)
        meta, cols, arr = parse_file(path)
        # file columns
        if kind == "traditional":
            curves = obj.amplitude
        elif kind == "azimuthal":
            curves = np.vstack([h.amplitude for h in obj.hvsrs])
        else:
            curves = np.atleast_2d(obj.amplitude)
        ncur = curves.shape[0]
        ok = arr.shape[0] == obj.frequency.size and biteq(arr[:, 0].copy(), np.asarray(obj.frequency, float)) and \
            biteq(np.ascontiguousarray(arr[:, 1:1 + ncur].T), np.ascontiguousarray(curves))
        ctx.check(ok, "file-curve-columns-are-the-objects", "frequency / curve columns of the file are not the object's (bit for bit)",
                  file_shape=list(arr.shape), n_curves=ncur, **info)
        if kind != "diffuse":
            okm = arr.shape[1] == ncur + 3 and biteq_nan(arr[:, -2].copy(), want_mean) and biteq_nan(arr[:, -1].copy(), want_std)
            which = None
            if not okm and kind == "azimuthal" and arr.shape[1] == ncur + 3:
                for a, h in enumerate(obj.hvsrs):
                    try:
                        if np.allclose(arr[:, -2], h.mean_curve(dmc)):
                            which = a
                    except Exception:
                        pass
            ctx.check(okm, "file-derived-columns-are-the-objects", "the mean / std columns stored in the file are not those of the "
                      "object that was written", file_mean=arr[:4, -2], object_mean=want_mean[:4],
                      equals_mean_curve_of_azimuth=which, n_azimuths=len(obj.hvsrs) if kind == "azimuthal" else None, **info)
        back = hvsrpy.read_hvsr_object_from_file(path_arg)
        ctx.count("reads")
    finally:
        try:
            os.remove(path)
        except OSError:
            pass
        os.rmdir(d)
    ctx.check(type(back) is type(obj), "same-class", f"read back a {type(back).__name__}", **info)
    after_core = snap.snap(core(back))
    dd = snap.diff(before_core, after_core)
    ctx.check(not [x for x in dd if "amplitude" in x or "frequency" in x or "azimuths" in x], "curves-bit-identical",
              "frequencies / curves differ after the round trip", differences=dd[:5], **info)
    ctx.check(not [x for x in dd if "['vw']" in x or "['vp']" in x], "masks-identical", "accept masks differ after the round trip",
              differences=dd[:5], **info)
    ctx.check(not [x for x in dd if "search_range" in x or "['pf']" in x or "['pa']" in x], "search-range-and-peaks-identical",
              "search range / peaks differ after the round trip", differences=dd[:5], **info)
    bad = []
    for dist in ("lognormal", "normal"):
        sb = stats(back, dist)
        for k, v in st_before[dist].items():
            w = sb.get(k)
            if isinstance(v, tuple) and v and v[0] == "raises":
                same = isinstance(w, tuple) and w and w[0] == "raises"
            elif isinstance(w, tuple) and w and w[0] == "raises":
                same = False
            else:
                same = biteq_nan(np.asarray(v, float), np.asarray(w, float))
            if not same:
                bad.append((dist, k))
    ctx.check(not bad, "statistics-identical", "a statistic has a different value after the round trip", accessors=bad[:6], **info)
    if snap.snap(snap.norm(getattr(obj, "meta", {}))) != snap.snap(snap.norm(getattr(back, "meta", {}))):
        ctx.count("diagnostic_meta_content_differs")
    return True


def from_process(rng, kind):
    import hvsrpy
    dt = 0.01
    k = int(rng.integers(3, 9))
    recs = [gen.make_recording(*gen.recording_arrays(rng, 600, "white", 1.0), dt) for _ in range(k)]
    sm = dict(operator="konno_and_ohmachi", bandwidth=40., center_frequencies_in_hz=np.geomspace(0.5, 40, 24))
    if kind == "traditional":
        st = hvsrpy.HvsrTraditionalProcessingSettings(smoothing=sm, window_type_and_width=("tukey", 0.1))
    elif kind == "azimuthal":
        st = hvsrpy.HvsrAzimuthalProcessingSettings(smoothing=sm, window_type_and_width=("tukey", 0.1),
                                                    azimuths_in_degrees=np.sort(rng.choice(np.arange(0, 180, 7.5), int(rng.integers(1, 6)), replace=False)))
    else:
        st = hvsrpy.HvsrDiffuseFieldProcessingSettings(smoothing=sm, window_type_and_width=("tukey", 0.1))
    return hvsrpy.process(recs, st)


def fam_object(ctx, rng, kind):
    import hvsrpy
    via_process = rng.random() < 0.3
    if via_process:
        obj = from_process(rng, kind)
    elif kind == "traditional":
        obj, _ = histories.build_traditional(rng)
    elif kind == "azimuthal":
        obj = histories.build_azimuthal(rng)
    else:
        f, amp, _ = gen.curve_set(rng, n_curves=1)
        obj = hvsrpy.HvsrDiffuseField(f, amp[0], meta={"processing_method": "diffuse_field"})
    steps = []
    wrote = False
    if kind == "diffuse":
        for _ in range(int(rng.integers(0, 4))):
            r = histories.rand_range(rng, obj.frequency)
            obj.update_peaks_bounded(search_range_in_hz=r)
            steps.append(["range", list(r)])
        wrote = round_trip(ctx, obj, kind, steps, rng)
    else:
        if rng.random() < 0.3:
            wrote = round_trip(ctx, obj, kind, steps, rng)
        for steps in histories.random_history(rng, obj, n_steps=int(rng.integers(1, 6))):
            if writable(obj) and rng.random() < 0.6:
                wrote = round_trip(ctx, obj, kind, steps, rng) or wrote
        if writable(obj):
            wrote = round_trip(ctx, obj, kind, steps, rng) or wrote
    hs = obj.hvsrs if kind == "azimuthal" else [obj]
    masks = [h.valid_window_boolean_mask.tolist() for h in hs] if kind != "diffuse" else []
    ctx.describe(kind=kind, via_process=bool(via_process), n_curves=[int(getattr(h, "n_curves", 1)) for h in hs],
                 azimuths=getattr(obj, "azimuths", None), steps=steps, search_range=list(obj._search_range_in_hz))
    nontriv = any(not all(m) for m in masks) or tuple(obj._search_range_in_hz) != (None, None)
    if wrote and nontriv:
        ctx.nontrivial([kind, via_process, masks, list(obj._search_range_in_hz), [s[0] for s in steps]])
    ctx.state([kind, via_process, [s[0] for s in steps]])


def fam_masks_edited_separately(ctx, rng):
    """The two accept masks are separate public attributes: a user may take windows out of the curve statistics (window
    mask) and leave their peaks in the resonance statistics, or the other way round; both masks must come back as written."""
    kind = str(rng.choice(["traditional", "azimuthal"]))
    obj = histories.build_traditional(rng)[0] if kind == "traditional" else histories.build_azimuthal(rng)
    hs = obj.hvsrs if kind == "azimuthal" else [obj]
    steps = []
    for h in hs:
        ok = np.flatnonzero(h.valid_peak_boolean_mask)
        if ok.size >= 4:
            pick = rng.choice(ok, size=int(rng.integers(1, max(2, ok.size // 3))), replace=False)
            if rng.random() < 0.5:
                h.valid_window_boolean_mask[pick] = False          # out of the curves, still in the resonance statistics
                steps.append(["window-mask-only", pick.tolist()])
            else:
                h.valid_peak_boolean_mask[pick] = False            # out of the resonance statistics, still in the curves
                steps.append(["peak-mask-only", pick.tolist()])
    wrote = round_trip(ctx, obj, kind, steps, rng) if writable(obj) else False
    ctx.describe(kind=kind + "+masks-edited-separately", n_curves=[int(h.n_curves) for h in hs], steps=steps)
    if wrote:
        ctx.nontrivial(["separate-masks", kind, [str(s2) for s2 in steps]])


def fam_traditional(ctx, rng):
    fam_object(ctx, rng, "traditional")


def fam_find_peaks_kwargs(ctx, rng):
    """Traditional results whose peaks were found with explicit find_peaks_kwargs (height / prominence), including the
    workflow 'take range and kwargs from result.meta, change them, re-apply', then written and read back."""
    obj, _ = histories.build_traditional(rng)
    f = obj.frequency
    steps = []
    sr = histories.rand_range(rng, f)
    kw = [{"height": [0.0, float(rng.uniform(3, 10))]}, {"prominence": float(rng.uniform(0.05, 0.5))},
          {"height": float(rng.uniform(1.0, 2.0))}][int(rng.integers(0, 3))]
    obj.update_peaks_bounded(search_range_in_hz=sr, find_peaks_kwargs=dict(kw))
    steps.append(["range+kwargs", list(sr), kw])
    wrote = False
    if writable(obj) and obj.valid_peak_boolean_mask.sum() >= 2:
        wrote = round_trip(ctx, obj, "traditional", steps, rng)
    # re-apply with settings taken from the result's own meta and edited (as a user adjusting a previous run would)
    for _ in range(int(rng.integers(1, 3))):
        m_kw = obj.meta["find_peaks_kwargs"]
        m_sr = obj.meta["search_range_in_hz"]
        if isinstance(m_kw, dict):
            if "height" in m_kw and isinstance(m_kw["height"], list):
                m_kw["height"][1] = float(rng.uniform(2, 6))
            elif "prominence" in m_kw:
                m_kw["prominence"] = float(rng.uniform(0.05, 1.0))
            else:
                m_kw["height"] = float(rng.uniform(1.0, 3.0))
        obj.update_peaks_bounded(search_range_in_hz=m_sr, find_peaks_kwargs=m_kw)
        steps.append(["re-apply-from-meta", list(m_sr), dict(m_kw) if isinstance(m_kw, dict) else m_kw])
        if writable(obj) and obj.valid_peak_boolean_mask.sum() >= 2:
            wrote = round_trip(ctx, obj, "traditional", steps, rng) or wrote
    ctx.describe(kind="traditional+find_peaks_kwargs", n_curves=[int(obj.n_curves)], steps=steps)
    if wrote:
        ctx.nontrivial(["kwargs", int(obj.n_curves), [str(s2) for s2 in steps]])


def fam_azimuthal(ctx, rng):
    fam_object(ctx, rng, "azimuthal")


def fam_diffuse(ctx, rng):
    fam_object(ctx, rng, "diffuse")


def fam_large_file(ctx, rng):
    """Results whose file is well above a megabyte (a long recording on a fine frequency grid; a dense azimuth sweep)."""
    import hvsrpy
    kind = str(rng.choice(["traditional", "azimuthal"]))
    if kind == "traditional":
        f, amp, _ = gen.curve_set(rng, n_curves=int(rng.choice([90, 140])), n_freq=256)
        f = np.geomspace(f[0], f[-1], 600)
        amp = np.array([np.interp(np.log(f), np.log(np.geomspace(f[0], f[-1], 256)), a) for a in amp]) * (1 + 1e-3 * rng.random((amp.shape[0], 600)))
        obj = hvsrpy.HvsrTraditional(f, amp, meta={"processing_method": "traditional"})
    else:
        f = np.geomspace(0.2, 30, 150)
        lf = np.log(f)
        hv = [hvsrpy.HvsrTraditional(f, 1 + rng.uniform(1, 5, (30, 1)) * np.exp(-0.5 * ((lf[None, :] - rng.uniform(lf[20], lf[-20], (30, 1))) / 0.2) ** 2)
                                     + 0.01 * rng.random((30, 150))) for _ in range(12)]
        obj = hvsrpy.HvsrAzimuthal(hv, np.arange(0, 180, 15.0).tolist(), meta={"processing_method": "azimuthal"})
    steps = [["large-file"]]
    r = histories.rand_range(rng, obj.frequency)
    obj.update_peaks_bounded(search_range_in_hz=r)
    steps.append(["range", list(r)])
    if writable(obj):
        round_trip(ctx, obj, kind, steps, rng)
    hs = obj.hvsrs if kind == "azimuthal" else [obj]
    ctx.describe(kind=kind, n_curves=[int(h.n_curves) for h in hs], n_freq=int(obj.frequency.size), steps=steps)
    ctx.nontrivial(["large-file", kind, int(obj.frequency.size)])


def or_large(fn):
    """Whatever the family, the cases with index 5 mod 97 (about five per quick run) write a file above a megabyte."""
    def run(ctx, rng):
        return fam_large_file(ctx, rng) if ctx.every(97, 5) else fn(ctx, rng)
    return run


FAMILIES = [("masks-edited-separately", fam_masks_edited_separately), ("explicit-find-peaks-kwargs", fam_find_peaks_kwargs), ("traditional", fam_traditional), ("azimuthal", fam_azimuthal), ("diffuse-field", fam_diffuse),
            ("azimuthal-2", fam_azimuthal)]
FAMILIES = [(n, or_large(f)) for n, f in FAMILIES]
