"""C09 - processing has no side effects on its inputs and is repeatable.

Probe: hvsrpy.process wrapped at its boundary with bit-exact deep snapshots of every recording and
of the settings object before / after; a second, write-watched execution of the same case (all
reachable ndarrays read-only) yields the writing file:line as a diagnostic witness; alias walker +
poke between the result and (recordings, settings).
"""

import copy
import traceback

import numpy as np

from .. import gen, snap
from . import C01

PROPERTY = "C09"
NUM = 9
RULE = ("cases = 1-6 recordings (optionally mixed time steps) x processing method (9 frequency-domain names, single "
        "azimuth, RotDpp, azimuthal, diffuse field, PSD with smoothing on/off) x Tukey width x history (process twice; "
        "process with method A then method B on the same recordings; interleaved settings objects) followed by in-place "
        "and by-assignment mutation of every array/list/dict reachable from the recordings and the settings; plus a family "
        "aimed at the FFT length that process() leaves in the settings object (fft_settings={'n': None}; an interleaved call "
        "on recordings longer than 2^15 samples with the same or with another, equal settings object) with a mechanism test (fresh settings reproduce run 1, pinned FFT length run 2); "
        "non-trivial = Tukey width > 0 (an in-place taper is invisible for width 0); distinct = (method, alpha, n "
        "recordings, dts, history kind) signatures")
ASSUMPTIONS = [
    "settings.fft_settings may legitimately be filled in by the first call (reported, not judged); every other change of the settings object is reported as a diagnostic",
    "result content judged = frequency, curves, masks, peaks, search range (numeric content); result.meta aliasing with the inputs is judged only for channels proven by poking",
]
NOT_REACHED = ["recordings with more than 12000 samples in this check (C01 covers long windows)"]
BUDGET = {"quick": dict(cases=1200, seconds=60, shards=4),
          "thorough": dict(cases=100000, seconds=600, shards=16)}
REQUIRED = ["mon:recordings-unchanged", "mon:repeatable", "mon:result-independent-of-later-mutation",
            "mon:second-method-unaffected"]

KINDS = ["freq", "freq", "single", "rotdpp", "azimuthal", "diffuse", "psd", "psd-nosmooth"]


def make_settings(cfg):
    import hvsrpy
    if cfg["kind"] in ("psd", "psd-nosmooth"):
        st = hvsrpy.PsdProcessingSettings(
            window_type_and_width=("tukey", cfg["alpha"]),
            smoothing=dict(operator=cfg["op"], bandwidth=cfg["b"], center_frequencies_in_hz=np.array(cfg["fcs"], copy=True)),
            fft_settings=None if cfg["user_n"] is None else dict(n=int(cfg["user_n"])))
        if cfg["kind"] == "psd-nosmooth":
            st.smoothing = None
        return st
    return C01.make_settings(cfg)


def result_numeric(res):
    """Numeric content of a result (what 'the result' means in the statement)."""
    import hvsrpy
    if isinstance(res, dict):
        return {k: (np.array(v.frequency), np.array(v.amplitude)) for k, v in res.items()}
    if isinstance(res, hvsrpy.HvsrAzimuthal):
        return [result_numeric(h) for h in res.hvsrs] + [list(res.azimuths)]
    out = {"frequency": np.array(res.frequency), "amplitude": np.array(res.amplitude),
           "search_range": tuple(res._search_range_in_hz)}
    for a in ("valid_window_boolean_mask", "valid_peak_boolean_mask", "_main_peak_frq", "_main_peak_amp",
              "peak_frequency", "peak_amplitude"):
        if hasattr(res, a):
            out[a] = np.array(getattr(res, a))
    return out


def write_watch(objs):
    arrs = [x for _, x in snap.mutable_leaves(objs) if isinstance(x, np.ndarray)]
    prev = [a.flags.writeable for a in arrs]
    for a in arrs:
        try:
            a.flags.writeable = False
        except ValueError:
            pass

    def restore():
        for a, w in zip(arrs, prev):
            try:
                a.flags.writeable = w
            except ValueError:
                pass
    return restore


def diagnose_writer(items, cfg):
    """Second execution with every input array read-only: where is the in-place write?"""
    import hvsrpy
    recs = [gen.make_recording(np.array(it[0]), np.array(it[1]), np.array(it[2]), it[3]) for it in items]
    st = make_settings(cfg)
    restore = write_watch([recs])
    try:
        hvsrpy.process(recs, st)
    except ValueError as e:
        if "read-only" in str(e):
            tb = traceback.extract_tb(e.__traceback__)
            frames = [f"{f.filename}:{f.lineno} {f.name}" for f in tb if "/hvsrpy/" in f.filename]
            return frames[-2:]
    except Exception:
        pass
    finally:
        restore()
    return None


def gen_items(rng):
    k = int(rng.choice([1, 1, 2, 3, 6]))
    dt = float(rng.choice([0.005, 0.01, 0.02, 1 / 75]))
    n = int(rng.choice([300, 1000, 4000, 12000]))
    items = []
    mix = str(rng.choice(["same", "same", "different", "near-equal"])) if k >= 2 else "same"
    coarse = set(int(i) for i in rng.choice(k, size=int(rng.integers(1, k)), replace=False)) if k >= 2 else set()
    for i in range(k):
        a = gen.recording_arrays(rng, n, None, amp=float(10 ** rng.uniform(-3, 3)))
        dti = dt
        if mix == "different" and i in coarse:          # coarser recordings anywhere in the list, also first
            dti = dt * 2
        elif mix == "near-equal" and i % 2:
            dti = float(np.float32(dt)) if float(np.float32(dt)) != dt else dt * (1 + 1e-7)
        items.append((a[0], a[1], a[2], dti))
    return items, max(it[3] for it in items), n


def gen_cfg(rng, dt, n, kind=None):
    kind = kind or KINDS[int(rng.integers(0, len(KINDS)))]
    base_kind = "diffuse" if kind.startswith("psd") else kind
    cfg = C01.gen_cfg(rng, dt, n, base_kind)
    cfg["kind"] = kind
    if kind.startswith("psd"):
        cfg["method"] = kind
    cfg["alpha"] = float(rng.choice([0.0, 0.05, 0.1, 0.5, 1.0]))
    return cfg


def fam_history(ctx, rng):
    import hvsrpy
    items, dt, n = gen_items(rng)
    cfg = gen_cfg(rng, dt, n)
    if len(items) >= 2 and not cfg["kind"].startswith("psd"):
        cfg["policy"] = str(rng.choice(["frequency_domain_resampling", "keeping_smallest_time_step", "keeping_majority_time_step"]))
    hist = str(rng.choice(["twice", "two-methods", "interleaved-settings"]))
    ctx.describe(n_recordings=len(items), dt=dt, n=n, history=hist, **cfg)
    from_files = bool(rng.random() < 0.5)           # recordings read from one file per component carry a LIST of file names
    recs = [gen.make_recording(np.array(it[0]), np.array(it[1]), np.array(it[2]), it[3],
                               degrees_from_north=float(rng.uniform(0, 360)),
                               meta=dict({"site": "A", "list": [1, 2]},
                                         **({"file name(s)": [f"stn{i:02d}_{c}.mseed" for c in "enz"]} if from_files else {})))
            for i, it in enumerate(items)]
    st = make_settings(cfg)
    before_r = snap.snap(recs)
    before_s = snap.snap(st)
    info = dict(method=cfg["method"], alpha=cfg["alpha"], op=cfg["op"], n_recordings=len(items), history=hist)
    try:
        with np.errstate(all="ignore"):
            r1 = hvsrpy.process(recs, st)
    except ValueError as e:
        ctx.count("process_refused")
        r1 = None
    ctx.count("process_calls")
    after_r = snap.snap(recs)
    d = snap.diff(before_r, after_r)
    if d:
        where = diagnose_writer(items, cfg)
        ctx.check(False, "recordings-unchanged", "process() changed the recordings it was given", differences=d[:6],
                  written_at=where, **info)
    else:
        ctx.check(True, "recordings-unchanged")
    ds = [x for x in snap.diff(before_s, snap.snap(st)) if ".fft_settings" not in x]
    if ds:
        ctx.count("diagnostic_settings_changed_beyond_fft_settings")
    if r1 is None:
        return
    num1 = snap.snap(result_numeric(r1))

    # -- repeatability ------------------------------------------------------------------------
    if hist == "interleaved-settings":
        other = make_settings(gen_cfg(rng, dt, n))
        try:
            with np.errstate(all="ignore"):
                hvsrpy.process(recs, other)
        except Exception:
            pass
        ctx.check(not snap.diff(before_r, snap.snap(recs)), "recordings-unchanged",
                  "process() with a second settings object changed the recordings", **info)
    with np.errstate(all="ignore"):
        r2 = hvsrpy.process(recs, st)
    ctx.count("process_calls")
    num2 = snap.snap(result_numeric(r2))
    ctx.check(num1 == num2, "repeatable", "the same processing on the same recordings with the same settings object "
              "returned a different result", differences=snap.diff(num1, num2)[:5], **info)
    if hist == "two-methods":
        cfg_b = gen_cfg(rng, dt, n)
        fresh = [gen.make_recording(np.array(it[0]), np.array(it[1]), np.array(it[2]), it[3]) for it in items]
        try:
            with np.errstate(all="ignore"):
                rb_used = hvsrpy.process(recs, make_settings(cfg_b))
                rb_fresh = hvsrpy.process(fresh, make_settings(cfg_b))
            ctx.check(snap.snap(result_numeric(rb_used)) == snap.snap(result_numeric(rb_fresh)), "second-method-unaffected",
                      f"processing with {cfg_b['method']} after {cfg['method']} on the same recordings differs from "
                      "processing fresh copies", first=cfg["method"], second=cfg_b["method"], alpha=cfg["alpha"])
        except ValueError:
            ctx.count("process_refused")
    else:
        ctx.count("mon:second-method-unaffected", 0)

    # -- the returned result does not change when inputs are modified afterwards ------------------
    keep = r2
    num_keep = snap.snap(result_numeric(keep))
    meta_keep = snap.snap(getattr(keep, "meta", None))
    leaves = [l for o in list(recs) + [st] for l in snap.mutable_leaves(o)]
    undo = [snap.poke(x) for _, x in leaves]
    for r in recs:                         # by assignment as well
        r.ns.amplitude = r.ns.amplitude * 0 + 7
        r.meta = {"replaced": True}
        r.degrees_from_north = 123.0
    for name in list(getattr(st, "attrs", [])):
        try:
            setattr(st, name, None)
        except Exception:
            pass
    ok = snap.snap(result_numeric(keep)) == num_keep
    ctx.check(ok, "result-independent-of-later-mutation", "a returned result changed when the recordings / settings were "
              "modified afterwards", differences=snap.diff(num_keep, snap.snap(result_numeric(keep)))[:5], **info)
    if snap.snap(getattr(keep, "meta", None)) != meta_keep:
        ctx.check(False, "result-meta-independent-of-later-mutation", "result.meta changed when the recordings / settings "
                  "were modified afterwards", differences=snap.diff(meta_keep, snap.snap(getattr(keep, "meta", None)))[:5], **info)
    else:
        ctx.check(True, "result-meta-independent-of-later-mutation")
    for u in reversed(undo):                # leave nothing behind should a poked object be shared with anything else
        if u is not None:
            u()
    if cfg["alpha"] > 0:
        ctx.nontrivial([cfg["method"], cfg["alpha"], len(items), dt, hist])
    ctx.state([cfg["kind"], cfg["alpha"] > 0, hist])


def fam_fft_length_persistence(ctx, rng):
    """The FFT length that process() writes into the caller's settings object: repeated / interleaved calls with the
    SAME settings object must still return identical results for the same recordings."""
    import hvsrpy
    items, dt, n = gen_items(rng)
    kind = str(rng.choice(["freq", "single", "rotdpp", "azimuthal"]))
    cfg = gen_cfg(rng, dt, n, kind)
    variant = str(rng.choice(["n-none", "interleaved-longer-recordings", "longer-recordings-with-another-settings-object",
                              "mixed-time-steps-longer-record-later", "interleaved-call-that-is-refused"]))
    cfg["user_n"] = None
    if variant == "mixed-time-steps-longer-record-later":
        # one call holds recordings of two time steps, and a LATER one needs a longer FFT than the earlier ones:
        # calling twice with the same settings object must still give the same curves for every recording
        dt = float(rng.choice([0.01, 0.02]))
        items = [tuple(gen.recording_arrays(rng, int(rng.choice([2000, 6000])), "white", 1.0)) + (dt,),
                 tuple(gen.recording_arrays(rng, 33000, "white", 1.0)) + (dt / 2,)]
        if rng.random() < 0.5:
            items.append(tuple(gen.recording_arrays(rng, 3000, "white", 1.0)) + (dt,))
        cfg = gen_cfg(rng, dt, 33000, kind)
        cfg["user_n"] = None
        cfg["policy"] = "frequency_domain_resampling"
    ctx.describe(n_recordings=len(items), dt=dt, n=n, variant=variant, **cfg)

    def recs_of(its):
        return [gen.make_recording(np.array(it[0]), np.array(it[1]), np.array(it[2]), it[3]) for it in its]
    st = make_settings(cfg)
    if variant == "n-none":
        st.fft_settings = {"n": None}
    pristine = copy.deepcopy(st)
    recs = recs_of(items)
    try:
        with np.errstate(all="ignore"):
            r1 = snap.snap(result_numeric(hvsrpy.process(recs, st)))
            if variant == "interleaved-longer-recordings":
                long_items = [tuple(gen.recording_arrays(rng, 33000, "white", 1.0)) + (dt,)]
                hvsrpy.process(recs_of(long_items), st)
            elif variant == "interleaved-call-that-is-refused":
                # in between, the same settings object is tried on recordings whose Nyquist frequency lies below the
                # requested centre frequencies (a refusal, or whatever the code does with them) - the settings must
                # come out of it unchanged as far as the first recordings are concerned
                coarse_dt = 4.0 / float(np.max(cfg["fcs"]))            # Nyquist = max(fcs) / 8
                coarse = [tuple(gen.recording_arrays(rng, 400, "white", 1.0)) + (coarse_dt,)]
                try:
                    hvsrpy.process(recs_of(coarse), st)
                    ctx.count("interleaved_low_rate_call_was_processed")
                except ValueError:
                    ctx.count("interleaved_low_rate_call_was_refused")
            elif variant == "longer-recordings-with-another-settings-object":
                # an unrelated call in the same session (its own, equal, settings object) must leave `st` alone
                long_items = [tuple(gen.recording_arrays(rng, 33000, "white", 1.0)) + (dt,)]
                hvsrpy.process(recs_of(long_items), copy.deepcopy(pristine))
            fft_now = copy.deepcopy(st.fft_settings)
            r2 = snap.snap(result_numeric(hvsrpy.process(recs, st)))
            # is the difference explained by nothing but the FFT length left in the settings object?
            fresh = snap.snap(result_numeric(hvsrpy.process(recs_of(items), copy.deepcopy(pristine))))
            pinned = copy.deepcopy(pristine)
            pinned.fft_settings = copy.deepcopy(fft_now)
            r_pinned = snap.snap(result_numeric(hvsrpy.process(recs_of(items), pinned)))
    except ValueError:
        ctx.count("process_refused")
        return
    ctx.count("process_calls", 4)
    explained = (fresh == r1) and (r_pinned == r2)
    ctx.check(r1 == r2, "repeatable", "the same recordings processed again with the same settings object give a different result",
              mechanism=variant, explained_by_persisted_fft_length=bool(explained), fft_settings_left_in_object=fft_now,
              method=cfg["method"], differences=snap.diff(r1, r2)[:3])
    # an equal, newly made settings object reproduces the first result whatever was processed in between
    ctx.check(fresh == r1, "repeatable", "an equal, newly constructed settings object does not reproduce the first result "
              "after other calls in the same session (state kept outside the objects)", mechanism="state-outside-the-objects",
              variant=variant, method=cfg["method"], differences=snap.diff(r1, fresh)[:3])
    ctx.nontrivial([variant, cfg["method"], len(items), n, dt])


FAMILIES = [("history", fam_history), ("history-2", fam_history), ("fft-length-persistence", fam_fft_length_persistence)]
