"""C01 - HVSR curves equal the defined spectral ratio for every combination method.

Probes: hvsrpy.process (result, settings.fft_settings after the call) and the smoothing registry
(what grid / rows / centre frequencies were handed to the smoother during the call).
Oracles: (1) models/pipeline.py reference pipeline, (2) closed form for proportional components,
(3) metamorphic relations on the real code (common factor, H factor, V factor, alias names).
"""

import numpy as np

from .. import gen, probe
from ..ctx import biteq, close, maxrel
from ..models import pipeline as P

PROPERTY = "C01"
NUM = 1
RULE = ("cases = one three-component window (length 16..70000, dt from 11 values incl. 1/75,1/150,1/300, amplitude "
        "scale 1e-12..1e12, 6 signal families) x processing configuration (13 method names incl. aliases, single "
        "azimuth anywhere in R, RotDpp percentile, azimuthal, diffuse field; 7 smoothing operators x bandwidth; 5 "
        "Tukey widths; centre-frequency class; optional user FFT length); non-trivial = the reference curve has >= 2 "
        "judged centre frequencies and is not flat; distinct = distinct (method, operator, bandwidth, alpha, n, dt, "
        "fc class, oracle) signatures")
ASSUMPTIONS = [
    "scipy.signal.windows.tukey and numpy.fft.rfft are trusted primitives shared with the code under test",
    "reference smoothing = models/smoothing.py (independent implementation); window-edge decisions within 1e-9 are ambiguous and every admissible outcome is accepted",
    "when the model predicts an empty smoothing window or a non-positive smoothed vertical the only judged outcome is 'error or model-equal'",
    "diffuse-field reference accepts the Nyquist bin with or without the one-sided factor 2",
]
NOT_REACHED = ["all-zero vertical components", "fft_settings={'n': None} with odd window lengths in the PSD path",
               "windows longer than 70000 samples"]
BUDGET = {"quick": dict(cases=2000, seconds=70, shards=4),
          "thorough": dict(cases=120000, seconds=600, shards=16)}
REQUIRED = ["mon:reference-pipeline", "mon:closed-form", "mon:common-factor-pow2-bit-identical",
            "mon:horizontal-factor-linear", "mon:vertical-factor-inverse", "mon:alias-bit-identical",
            "mon:frequency-equals-fcs", "mon:fft-length-covers-window"]

KINDS = ["freq", "freq", "freq", "single", "rotdpp", "azimuthal", "diffuse"]


def setup(ctx):
    import hvsrpy  # noqa
    probe.probe_smoothing_registry()


def gen_cfg(rng, dt, L, kind=None, op=None):
    kind = kind or KINDS[int(rng.integers(0, len(KINDS)))]
    user_n = None
    if rng.random() < 0.3:
        user_n = int(rng.choice([2 ** 15, 2 ** 16, 2 ** 17, gen.nextpow2(L), 40000]))
    n_fft = max(gen.nextpow2(L), user_n or 0)
    sm = gen.smoothing_dict(rng, dt, n_fft, op=op)
    cfg = dict(kind=kind, alpha=float(rng.choice(gen.TUKEY)), user_n=user_n, op=sm["operator"],
               b=sm["bandwidth"], fcs=np.asarray(sm["center_frequencies_in_hz"], dtype=float))
    if kind == "freq":
        cfg["method"] = gen.FREQ_METHODS[int(rng.integers(0, len(gen.FREQ_METHODS)))]
    elif kind == "single":
        cfg["method"] = str(rng.choice(["single_azimuth", "directional_energy"]))
        cfg["azimuth"] = float(rng.choice([0., 90., 180., 45., -30., 400., float(rng.uniform(-720, 1080))]))
    elif kind == "rotdpp":
        cfg["method"] = "rotdpp"
        cfg["azimuths"] = np.sort(rng.uniform(0, 180, int(rng.integers(1, 8))))
        cfg["percentile"] = float(rng.choice([0., 50., 100., float(rng.uniform(0, 100)), float(rng.uniform(0, 100)), 0.5, 1.0, 99.5]))
    elif kind == "azimuthal":
        cfg["method"] = "azimuthal"
        cfg["azimuths"] = np.sort(rng.uniform(0, 180, int(rng.integers(1, 6))))
    else:
        cfg["method"] = "diffuse_field"
    # the azimuths of a sweep are usually whole degrees held in whatever np.arange / a JSON file / a loop produced: a share
    # of the cases uses whole (or half) degrees and hands them over as another numeric type holding the same values
    if kind == "rotdpp" and rng.random() < 0.25:
        # a sweep may name a direction more than once: both end points of linspace(0, 180, k), a full circle (every line
        # twice), an entry repeated by hand - the percentile is over the azimuths as REQUESTED
        sets = [np.array([0.0, 90.0, 180.0]), np.linspace(0, 180, int(rng.integers(3, 8))), np.arange(0.0, 360.0, float(rng.choice([30, 45, 60]))),
                np.array([20.0, 75.0, 75.0, 130.0]), np.sort(np.concatenate([rng.uniform(0, 180, 3), rng.uniform(0, 180, 2) + 180.0])),
                np.array([10.0, 10.0, 10.0, 100.0])]
        cfg["azimuths"] = sets[int(rng.integers(0, len(sets)))]
        cfg["percentile"] = float(rng.choice([35.0, 20.0, 80.0, 65.0, float(rng.uniform(5, 95))]))
    elif kind in ("rotdpp", "azimuthal") and rng.random() < 0.3:
        k = len(cfg["azimuths"])
        cfg["azimuths"] = np.sort(rng.choice(np.arange(0, 180, 5.0), size=k, replace=False))
        cfg["azimuths_dtype"] = gen.vector_dtype_form(rng, cfg["azimuths"])[1]
    # centre frequencies in whole hertz, handed over as a list of ints / an integer array / float32 (same values)
    if rng.random() < 0.15:
        whole = np.unique(np.maximum(1.0, np.round(cfg["fcs"])))
        if whole.size >= 2 and whole[-1] <= cfg["fcs"].max():
            cfg["fcs"] = whole
            cfg["fcs_dtype"] = gen.vector_dtype_form(rng, whole)[1]
    if kind == "rotdpp" and rng.random() < 0.3:
        cfg["percentile"] = float(rng.choice([0., 16., 50., 84., 100., 12.5, 99.5]))
        # (not as float16 / float32: np.percentile interpolates in the precision of the q it is given - numpy's semantics)
        cfg["percentile_type"] = gen.scalar_form(rng, cfg["percentile"], allow=["float", "int", "float64", "int64", "int32", "int16", "uint8",
                                                                                    "int8", "zero-dim-array", "zero-dim-array"])[1]
    if kind == "single" and rng.random() < 0.3:
        cfg["azimuth"] = float(rng.choice([0., 30., 45., 90., 135., 200., 12.5, -30., 400.]))
        cfg["azimuth_type"] = gen.scalar_form(rng, cfg["azimuth"])[1]
    return cfg


def make_settings(cfg):
    """The settings object for a case.  One case in five (decided by the configuration's own content, so that a replay
    takes the same route) gets a settings object WITH A PAST: it was created for another smoothing and an un-padded or
    default FFT, used once on a short recording, and then brought to the wanted configuration by editing its public
    attributes in place (dict entries) - what process() does must follow the settings in force when it is called."""
    import hvsrpy, zlib
    common = dict(window_type_and_width=("tukey", cfg["alpha"]),
                  smoothing=dict(operator=cfg["op"], bandwidth=cfg["b"],
                                 center_frequencies_in_hz=(gen.vector_dtype_form(None, cfg["fcs"], cfg["fcs_dtype"])[0] if cfg.get("fcs_dtype")
                                                           else np.array(cfg["fcs"], copy=True))),
                  fft_settings=None if cfg["user_n"] is None else dict(n=int(cfg["user_n"])))
    if cfg.get("fft_n_none"):
        common["fft_settings"] = dict(n=None)
    if cfg.get("policy"):
        common["handle_dissimilar_time_steps_by"] = cfg["policy"]
    h = zlib.crc32(repr(sorted((k_, repr(v_)) for k_, v_ in cfg.items())).encode())
    if h % 5 != 0:
        return _build_settings(cfg, common)
    past = dict(common)
    other = ("parzen", 0.5) if cfg["op"] == "konno_and_ohmachi" else ("konno_and_ohmachi", 40.0)
    past["smoothing"] = dict(operator=other[0], bandwidth=other[1], center_frequencies_in_hz=np.array([1.0, 2.0, 5.0, 10.0]))
    past["fft_settings"] = dict(n=None) if (h // 5) % 2 == 0 else None
    try:
        st = _build_settings(cfg, past)
        r = np.random.default_rng(h)
        short = [gen.make_recording(r.standard_normal(128), r.standard_normal(128), r.standard_normal(128), 0.01) for _ in range(2)]
        with np.errstate(all="ignore"):
            hvsrpy.process(short, st)
    except Exception:
        SETTINGS_WITH_A_PAST["refused"] += 1
        return _build_settings(cfg, common)
    st.smoothing["operator"] = common["smoothing"]["operator"]
    st.smoothing["bandwidth"] = common["smoothing"]["bandwidth"]
    st.smoothing["center_frequencies_in_hz"] = common["smoothing"]["center_frequencies_in_hz"]
    want = common["fft_settings"]
    if want is None:
        st.fft_settings = None
    elif isinstance(st.fft_settings, dict):
        st.fft_settings.clear()
        st.fft_settings.update(want)
    else:
        st.fft_settings = dict(want)
    SETTINGS_WITH_A_PAST["used"] += 1
    return st


SETTINGS_WITH_A_PAST = {"used": 0, "refused": 0}


def _build_settings(cfg, common):
    import hvsrpy
    k = cfg["kind"]
    if k == "freq":
        return hvsrpy.HvsrTraditionalProcessingSettings(method_to_combine_horizontals=cfg["method"], **common)
    if k == "single":
        az = gen.scalar_form(None, cfg["azimuth"], cfg["azimuth_type"])[0] if cfg.get("azimuth_type") else cfg["azimuth"]
        return hvsrpy.HvsrTraditionalSingleAzimuthProcessingSettings(
            method_to_combine_horizontals=cfg["method"], azimuth_in_degrees=az, **common)
    azs = np.array(cfg["azimuths"], copy=True) if "azimuths" in cfg else None
    if cfg.get("azimuths_dtype"):
        azs = gen.vector_dtype_form(None, azs, cfg["azimuths_dtype"])[0]
    if k == "rotdpp":
        pp = gen.scalar_form(None, cfg["percentile"], cfg["percentile_type"])[0] if cfg.get("percentile_type") else cfg["percentile"]
        return hvsrpy.HvsrTraditionalRotDppProcessingSettings(
            ppth_percentile_for_rotdpp_computation=pp,
            azimuths_in_degrees=azs, **common)
    if k == "azimuthal":
        return hvsrpy.HvsrAzimuthalProcessingSettings(azimuths_in_degrees=azs, **common)
    return hvsrpy.HvsrDiffuseFieldProcessingSettings(**common)


def run_process(ctx, windows, dt, cfg):
    """windows: list of (ns, ew, vt) arrays. Fresh recording objects for every call.
    Returns (curves[n_az?][n_windows, nfc] as list of 2-D arrays, n_fft, error)."""
    import hvsrpy
    # the windows carry whatever sensor orientation they were recorded / preprocessed with: process() works in the
    # sensor's own frame (azimuths are measured from the sensor's north component), so the orientation must not matter
    orient = cfg.get("sensor_degrees_from_north") or [0.0] * len(windows)
    recs = [gen.make_recording(np.array(w[0], copy=True), np.array(w[1], copy=True), np.array(w[2], copy=True), dt,
                               degrees_from_north=float(o)) for w, o in zip(windows, orient)]
    st = make_settings(cfg)
    probe.TRACE.clear()
    ctx.count("process_calls")
    try:
        with np.errstate(all="ignore"):
            res = hvsrpy.process(recs, st)
    except Exception as exc:
        return None, (st.fft_settings or {}).get("n"), exc
    n = st.fft_settings["n"]
    L = max(len(w[0]) for w in windows)
    ctx.check(isinstance(n, (int, np.integer)) and n >= L, "fft-length-covers-window",
              f"fft n={n} for a window of {L} samples", n=n, L=L)
    fr = np.asarray(res.frequency)
    ctx.check(fr.shape == cfg["fcs"].shape and bool(np.all(fr == cfg["fcs"])), "frequency-equals-fcs",
              "result.frequency is not the requested centre-frequency vector", got=fr, want=cfg["fcs"])
    ev = probe.TRACE.of("smooth")
    ctx.count("smoothing_events", len(ev))
    if ev:
        e = ev[0]
        ctx.check(e["nf"] == n // 2 + 1 and abs(e["df"] - 1.0 / (n * dt)) <= 1e-9 / (n * dt) and e["f0"] == 0.0
                  and e["fcs"].shape == cfg["fcs"].shape and bool(np.all(e["fcs"] == cfg["fcs"])),
                  "smoother-received-fft-grid", "smoother was not handed the FFT grid / requested fcs",
                  nf=e["nf"], df=e["df"], n=n, dt=dt)
    if cfg["kind"] == "azimuthal":
        curves = [np.asarray(h.amplitude) for h in res.hvsrs]
    else:
        curves = [np.atleast_2d(np.asarray(res.amplitude))]
    return curves, n, None


def reference(cfg, w, dt, n, azimuth=None):
    k = cfg["kind"]
    if k == "azimuthal":
        return P.hvsr_curve(w[0], w[1], w[2], dt, n, cfg["alpha"], "single_azimuth", cfg["op"], cfg["b"], cfg["fcs"],
                            azimuth=azimuth)
    return P.hvsr_curve(w[0], w[1], w[2], dt, n, cfg["alpha"], cfg["method"], cfg["op"], cfg["b"], cfg["fcs"],
                        azimuth=cfg.get("azimuth"), azimuths=cfg.get("azimuths"), percentile=cfg.get("percentile"))


def cfg_info(cfg):
    return {k: v for k, v in cfg.items()}


def model_allows_error(refs):
    """An exception from process() is acceptable only when the model itself cannot produce a finite,
    non-negative curve at some centre frequency."""
    for c in refs:
        if len(c.skip) > 0:
            return True
        vals = [c.base] + [np.array(a) for a in c.alts.values()]
        for v in vals:
            v = np.asarray(v, dtype=float)
            if np.any(~np.isfinite(v)) or np.any(v < 0):
                return True
    return False


def fam_reference(ctx, rng, kind=None):
    dt = float(gen.DTS[int(rng.integers(0, len(gen.DTS)))])
    nwin = 1 if rng.random() < 0.6 else int(rng.integers(2, 4))
    L = int(rng.choice([16, 50, 200, 512, 1000, 3000, 6001, 12000, 30000, 32768, 40000, 70000]))
    fam = gen.SIGNALS[int(rng.integers(0, len(gen.SIGNALS)))]
    amp = gen.scale(rng)
    windows = [gen.recording_arrays(rng, L, fam, amp) for _ in range(nwin)]
    cfg = gen_cfg(rng, dt, L, kind)
    cfg["sensor_degrees_from_north"] = [float(rng.choice([0.0, 0.0, 30.0, 90.0, 217.5, float(rng.uniform(0, 360))])) for _ in windows]
    ctx.describe(dt=dt, L=L, nwin=nwin, signal=fam, amp=amp, **cfg_info(cfg))
    curves, n, err = run_process(ctx, windows, dt, cfg)
    n_used = n if n is not None else max(gen.nextpow2(L), cfg["user_n"] or 0)
    # reference curves
    if cfg["kind"] == "diffuse":
        refs_by_variant = P.diffuse_field_curve(windows, dt, n_used, cfg["alpha"], cfg["op"], cfg["b"], cfg["fcs"])
        if err is not None:
            ctx.check(model_allows_error(refs_by_variant), "no-unexpected-error",
                      f"process raised {err!r} although the reference curve is finite", **cfg_info(cfg))
            return
        real = curves[0][0]
        bad = min((c.mismatches(real) for c in refs_by_variant), key=len)
        ref = refs_by_variant[0]
        ctx.check(not bad, "reference-pipeline", f"diffuse-field curve differs from sqrt(S(Pns+Pew)/S(Pvt)) at {len(bad)} fcs",
                  fc=[float(cfg["fcs"][j]) for j in bad[:4]], got=[float(real[j]) for j in bad[:4]],
                  want=[float(ref.base[j]) for j in bad[:4]], **cfg_info(cfg))
        judged = ref.base.size - len(ref.skip)
        ctx.count("ambiguous_skipped", len(ref.skip))
    else:
        azs = list(cfg["azimuths"]) if cfg["kind"] == "azimuthal" else [None]
        refs = [[reference(cfg, w, dt, n_used, az) for w in windows] for az in azs]
        flat_refs = [c for r in refs for c in r]
        if err is not None:
            ctx.check(model_allows_error(flat_refs), "no-unexpected-error",
                      f"process raised {err!r} although the reference curve is finite and non-negative", **cfg_info(cfg))
            return
        ctx.check(len(curves) == len(azs) and all(c.shape == (nwin, cfg["fcs"].size) for c in curves), "shape",
                  "wrong number of curves", shapes=[c.shape for c in curves])
        judged = 0
        for ai, az in enumerate(azs):
            for wi in range(nwin):
                ref = refs[ai][wi]
                real = curves[ai][wi]
                bad = ref.mismatches(real)
                judged += ref.base.size - len(ref.skip)
                ctx.count("ambiguous_skipped", len(ref.skip))
                ctx.check(not bad, "reference-pipeline",
                          f"{cfg['method']}: curve differs from smooth(combine(H))/smooth(V) at {len(bad)} fcs",
                          window=wi, az=az, fc=[float(cfg["fcs"][j]) for j in bad[:4]],
                          got=[float(real[j]) for j in bad[:4]], want=[float(ref.base[j]) for j in bad[:4]],
                          tol=[float(ref.tol[j]) for j in bad[:4]], dt=dt, L=L, n=n_used, **cfg_info(cfg))
        ref = refs[0][0]
    ctx.count("centre_frequencies_judged", judged)
    if judged >= 2 and np.ptp(ref.base[np.isfinite(ref.base)]) > 0:
        ctx.nontrivial([cfg["method"], cfg["op"], round(float(cfg["b"]), 6), cfg["alpha"], n_used, dt, "ref"])
    ctx.state([cfg["method"], cfg["op"], cfg["alpha"]])


def fam_reference_freq(ctx, rng):
    fam_reference(ctx, rng, "freq")


def fam_reference_other(ctx, rng):
    fam_reference(ctx, rng, str(rng.choice(["single", "rotdpp", "azimuthal", "diffuse"])))


def fam_closed_form(ctx, rng):
    dt = float(gen.DTS[int(rng.integers(0, len(gen.DTS)))])
    L = int(rng.choice([64, 500, 3000, 10000, 33000]))
    s = gen.signal(rng, L) * gen.scale(rng)
    A, B, C = (float(rng.choice([-1, 1]) * 10 ** rng.uniform(-2, 2)) for _ in range(3))
    if rng.random() < 0.15:
        A = 0.0
    elif rng.random() < 0.3:
        # a nearly dead horizontal channel (or one left in other units): many orders of magnitude below the other one
        if rng.random() < 0.5:
            A *= float(10 ** rng.uniform(-13, -8))
        else:
            B *= float(10 ** rng.uniform(-13, -8))
    cfg = gen_cfg(rng, dt, L)
    # closed form needs only linearity of the smoother: restrict fcs to where windows are surely non-empty
    n_fft = max(gen.nextpow2(L), cfg["user_n"] or 0)
    cfg["sensor_degrees_from_north"] = [float(rng.choice([0.0, 45.0, 300.0]))]
    ctx.describe(dt=dt, L=L, A=A, B=B, C=C, **cfg_info(cfg))
    windows = [(A * s, B * s, C * s)]
    curves, n, err = run_process(ctx, windows, dt, cfg)
    probe_ref = P.hvsr_curve(s, s, s, dt, n or n_fft, cfg["alpha"], "arithmetic_mean", cfg["op"], cfg["b"], cfg["fcs"])
    ok_cols = [j for j in range(cfg["fcs"].size) if j not in probe_ref.skip and j not in probe_ref.alts
               and abs(probe_ref.base[j] - 1.0) < 1e-6]
    if err is not None:
        ctx.check(len(ok_cols) < cfg["fcs"].size, "no-unexpected-error",
                  f"process raised {err!r} on proportional components", **cfg_info(cfg))
        return
    k = cfg["kind"]
    if k == "azimuthal":
        wants = [P.closed_form("single_azimuth", A, B, C, azimuth=a) for a in cfg["azimuths"]]
    else:
        wants = [P.closed_form(cfg["method"], A, B, C, azimuth=cfg.get("azimuth"), azimuths=cfg.get("azimuths"),
                               percentile=cfg.get("percentile"))]
    if not ok_cols:
        ctx.count("ambiguous_skipped")
        return
    for cv, want in zip(curves, wants):
        got = cv[0][ok_cols]
        # SG smoothing of |FFT| of a single signal stays proportional as well; tolerance 1e-8 covers its cancellation
        tol = 1e-8 * max(abs(want), 1e-300) + (1e-7 * (abs(A) + abs(B)) / abs(C) if want < 1e-6 * (abs(A) + abs(B)) / abs(C) else 0)
        ctx.check(bool(np.all(np.abs(got - want) <= tol)), "closed-form",
                  f"{cfg['method']}: curve of proportional components is not flat at the closed form",
                  want=want, got=got[:6], A=A, B=B, C=C, **cfg_info(cfg))
    ctx.nontrivial([cfg["method"], cfg["op"], cfg["alpha"], dt, L, "closed"])


def fam_metamorphic(ctx, rng):
    dt = float(gen.DTS[int(rng.integers(0, len(gen.DTS)))])
    L = int(rng.choice([100, 1000, 5000, 20000, 40000]))
    w = gen.recording_arrays(rng, L, None, gen.scale(rng))
    cfg = gen_cfg(rng, dt, L)
    ctx.describe(dt=dt, L=L, **cfg_info(cfg))
    base, n, err = run_process(ctx, [w], dt, cfg)
    if err is not None:
        ctx.count("metamorphic_base_raised")
        return
    base = [c.copy() for c in base]
    cfg2 = dict(cfg, user_n=int(n))   # pin the FFT length for the follow-up executions

    def rerun(ww, c=cfg2):
        out, _, e = run_process(ctx, [ww], dt, c)
        return out, e

    k = int(rng.integers(-20, 21))
    out, e = rerun([x * 2.0 ** k for x in w])
    ctx.check(e is None and all(biteq(a, b) for a, b in zip(out, base)), "common-factor-pow2-bit-identical",
              f"{cfg['method']}: curve changes when all components are multiplied by 2^{k}",
              maxrel=None if e else max(maxrel(a, b) for a, b in zip(out, base)), error=repr(e), **cfg_info(cfg))
    c = float(10 ** rng.uniform(-3, 3))
    out, e = rerun([x * c for x in w])
    ctx.check(e is None and all(close(a, b, rtol=1e-11) for a, b in zip(out, base)), "common-factor-invariant",
              f"{cfg['method']}: curve changes when all components are multiplied by {c}",
              maxrel=None if e else max(maxrel(a, b) for a, b in zip(out, base)), error=repr(e), **cfg_info(cfg))
    g = float(2.0 ** rng.integers(-6, 7)) if rng.random() < 0.5 else float(rng.uniform(0.1, 10))
    out, e = rerun([w[0] * g, w[1] * g, w[2]])
    ctx.check(e is None and all(close(a, b * g, rtol=1e-11) for a, b in zip(out, base)), "horizontal-factor-linear",
              f"{cfg['method']}: curve does not scale linearly with the horizontals (factor {g})",
              maxrel=None if e else max(maxrel(a, b * g) for a, b in zip(out, base)), error=repr(e), **cfg_info(cfg))
    out, e = rerun([w[0], w[1], w[2] * g])
    ctx.check(e is None and all(close(a, b / g, rtol=1e-11) for a, b in zip(out, base)), "vertical-factor-inverse",
              f"{cfg['method']}: curve does not scale inversely with the vertical (factor {g})",
              maxrel=None if e else max(maxrel(a, b / g) for a, b in zip(out, base)), error=repr(e), **cfg_info(cfg))
    # alias names -> bit identical to the canonical method
    if cfg["kind"] in ("freq", "single"):
        canon = P.canonical(cfg["method"])
        names = [m for m in list(P.ALIASES) + [canon] if P.canonical(m) == canon and m != cfg["method"]]
        for m in names:
            out, e = rerun(w, dict(cfg2, method=m))
            ctx.check(e is None and all(biteq(a, b) for a, b in zip(out, base)), "alias-bit-identical",
                      f"{m} and {cfg['method']} give different curves", error=repr(e), **cfg_info(cfg))
    ctx.nontrivial([cfg["method"], cfg["op"], cfg["alpha"], dt, L, "meta"])


def fam_reference_mixed_dt(ctx, rng):
    """Several windows with DIFFERENT time steps in one call (frequency-domain resampling): every row must be
    the spectral ratio of its own window on its own FFT grid."""
    import hvsrpy
    k = int(rng.integers(2, 5))
    dts = [float(x) for x in rng.choice([0.004, 0.005, 0.01, 0.0125, 0.02, 1 / 75], k, replace=False)]
    if rng.random() < 0.5:
        dts = dts + [dts[0]]
    long_list = rng.random() < 0.35
    if long_list:
        # many recordings of few time steps, interleaved: several recordings share every time step
        base = dts[:int(rng.integers(2, 4))]
        dts = [base[int(i)] for i in rng.integers(0, len(base), int(rng.integers(5, 11)))]
    L = [int(rng.choice([300, 1000, 2048] if long_list else [300, 1000, 2048, 5000])) for _ in dts]
    variant = str(rng.choice(["pinned-n", "pinned-n", "default-n-long-record-later", "n-none"]))
    if variant == "default-n-long-record-later":
        L[0] = 300
        L[-1] = int(rng.choice([33000, 40000]))          # longer than nextpow2(first) = 32768
    elif variant == "n-none":
        L = sorted(L)                                      # shortest first
        L[-1] = L[0] + int(rng.integers(50, 900))
    kind = str(rng.choice(["freq", "freq", "single", "rotdpp", "azimuthal"]))
    cfg = gen_cfg(rng, max(dts), max(L), kind)
    cfg["user_n"] = int(rng.choice([2 ** 15, 2 ** 16])) if variant == "pinned-n" else None
    cfg["fft_n_none"] = variant == "n-none"
    cfg["fcs"] = cfg["fcs"] * min(1.0, 0.9 * (0.5 / max(dts)) / cfg["fcs"].max())
    windows = [gen.recording_arrays(rng, n, None, 1.0) for n in L]
    ctx.describe(dts=dts, lengths=L, variant=variant, **cfg_info(cfg))
    recs = [gen.make_recording(w[0], w[1], w[2], dt, degrees_from_north=float(rng.choice([0.0, 0.0, 30.0, 217.5])))
            for w, dt in zip(windows, dts)]
    st = make_settings(cfg)
    ctx.count("process_calls")
    try:
        with np.errstate(all="ignore"):
            res = hvsrpy.process(recs, st)
    except ValueError:
        ctx.count("mixed_dt_case_refused")
        return
    n = st.fft_settings["n"]
    ctx.check(isinstance(n, (int, np.integer)) and n >= max(L), "fft-length-covers-window",
              f"fft n={n} although the longest window of the list has {max(L)} samples (it would be cropped, not zero-padded)",
              n=n, lengths=L, variant=variant)
    azs = list(cfg["azimuths"]) if kind == "azimuthal" else [None]
    curves = [np.asarray(h.amplitude) for h in res.hvsrs] if kind == "azimuthal" else [np.atleast_2d(np.asarray(res.amplitude))]
    for ai, az in enumerate(azs):
        for wi, (w, dt) in enumerate(zip(windows, dts)):
            ref = reference(cfg, w, dt, n, az)
            bad = ref.mismatches(curves[ai][wi])
            ctx.check(not bad, "reference-pipeline", f"{cfg['method']}: in a list with mixed time steps the curve of window {wi} "
                      f"(dt={dt}) differs from its spectral ratio at {len(bad)} fcs", window=wi, az=az, dts=dts,
                      fc=[float(cfg["fcs"][j]) for j in bad[:4]], got=[float(curves[ai][wi][j]) for j in bad[:4]],
                      want=[float(ref.base[j]) for j in bad[:4]], method=cfg["method"], op=cfg["op"])
    ctx.nontrivial([dts, L, cfg["method"], cfg["op"], "mixed-dt"])
    ctx.state(["mixed-dt", kind, len(set(dts))])


FAMILIES = [("reference-mixed-time-steps", fam_reference_mixed_dt), ("reference-freq-domain", fam_reference_freq), ("reference-azimuth-rotdpp-diffuse", fam_reference_other),
            ("closed-form-proportional", fam_closed_form), ("metamorphic-scaling-aliases", fam_metamorphic),
            ("reference-any", fam_reference)]
