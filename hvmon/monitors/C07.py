"""C07 - readers put the stored samples on the right components for every format.

Probes: hvsrpy.read_single / hvsrpy.read at their boundary (.ns/.ew/.vt.amplitude, .dt_in_seconds,
.degrees_from_north, .meta); a probe on data_wrangler.read_single records the sequence of call events
(fnames, obspy_read_kwargs, degrees_from_north) that read() makes - an offline routing checker compares
that sequence with the expected per-recording triples, in order; the six entries of READ_FUNCTION_DICT
are wrapped to count which reader accepted which kind of file (evidence only).
Workload: the harness WRITES every file from known arrays (hvmon/fileformats.py: miniSEED, SAC, GCF via
obspy and read back with obspy first; SAF, MiniShark, PEER via small text writers), permutes traces /
files / channel ids, corrupts them, and also pushes the real example files of the repository through
read_single in every file order (expected samples from obspy / an independent line based parse).
Oracle: sample-exact equality, dt, orientation, identical result for every order, an exception for
every corrupted variant, the routing of read()'s optional arguments.
"""

import copy
import inspect
import io
import itertools
import os
import pathlib
import shutil
import tempfile

import numpy as np

from .. import gen

from .. import fileformats as FF
from .. import probe

PROPERTY = "C07"
NUM = 7
RULE = ("cases cycle over 10 families: miniSEED one file (6 trace orders x encodings INT32/STEIM1/STEIM2/FLOAT32/FLOAT64, "
        "record lengths 512/4096, both byte orders), miniSEED three files, SAC (both byte orders), GCF (6 trace orders), SAF (6 "
        "CHn_ID permutations, NORTH_ROT, LF/CRLF), MiniShark (gain, conversion, LF/CRLF), PEER (UP/VER + numeric azimuths, "
        "lettered codes, C and Fortran number style, unequal NPTS, 6 file orders), corrupted variants of every format (count "
        "mismatch, missing / duplicated component, truncated / empty / garbage file), read() over 1-4 recordings of mixed "
        "formats with obspy_read_kwargs in {None, dict, list} x degrees_from_north in {None, scalar, list}, and the real "
        "example files in every file order; 10-20000 samples, 10-1000 Hz, full int32 range, channel prefixes BH/HH/EH/SH/HN/EN/"
        "mixed/none; non-trivial = a case with a non-identity trace/file/channel order, header scaling or orientation "
        "metadata different from identity, a corrupted variant, or per-recording arguments; distinct = (family, format, n, fs, "
        "codes, encoding/byte order/line ending, orientation source, corruption label / argument forms) signatures")
ASSUMPTIONS = [
    "obspy's writers and readers are the trusted base: a written miniSEED/SAC/GCF file is read back with obspy first; the "
    "expected samples are the written arrays (float32 for SAC) and the expected dt is obspy's read-back delta",
    "MiniShark layout is taken from hvsrpy's own regular expressions (the example file is empty in this checkout): "
    "column order V, N, E is an assumption shared with the code",
    "integer text formats: either float32(int) or the exact integer is accepted; MiniShark scaling int/gain/conversion is "
    "accepted when equal to the float32 pipeline or within 4e-7 relative of the exact quotient",
    "SAF: degrees_from_north = NORTH_ROT when N is channel 1, NORTH_ROT+90 when E is channel 1 (hvsrpy's reading of the "
    "SESAME text); with V as channel 1 and no explicit degrees_from_north an exception or any orientation is accepted "
    "(samples must still be right when a recording is returned); NORTH_ROT absent -> 0",
    "PEER numeric azimuth pairs are (h, h+90) with h in 0..45 (0 written 360/000/0): north = h; lettered codes -> 0",
    "orientation is compared modulo 360; any exception type counts as 'an error'",
    "every text file ends with a line terminator after its last row",
    "read(): the obspy_read_kwargs a recording receives may carry an extra 'byteorder' key (hvsrpy's SAC reader writes it into "
    "the caller's dict); all keys given by the caller must arrive unchanged; meta['file name(s)'] is counted, not judged",
    "reader options given by the caller always name the obspy format of a miniSEED/SAC/GCF recording (obspy's auto-detection is "
    "not under test: without 'format' it takes some GCF files for SAC and hvsrpy then cannot read them)",
    "truncated binary files are cut to fewer than 48 bytes (a miniSEED file cut at a record boundary is a valid shorter file)",
]
NOT_REACHED = [
    "in-memory inputs other than one io.BytesIO / io.StringIO per file (e.g. open file handles)", "'\\r'-only line ends",
    "non-integer sample rate in MiniShark headers",
    "PEER azimuth pairs that are not right-handed (h, h+90) with the first horizontal within 45 degrees of north (e.g. 180/270, 010/280: the reader keeps the stored polarity, which mirrors azimuthal results - reported as an aside, not judged)",
    "miniSEED files with gaps / more than one segment per channel, sample-count corruption inside miniSEED/GCF records",
    "records longer than 20000 samples except the real example files (180001 samples)",
    "GCF samples beyond +-2^30 (obspy's GCF codec does not round-trip larger first differences: 'last data != RIC')",
]
BUDGET = {"quick": dict(cases=2400, seconds=60, shards=4),
          "thorough": dict(cases=30000, seconds=600, shards=16)}
REQUIRED = ["mon:reads-valid-files", "mon:samples-on-right-components", "mon:time-step", "mon:orientation",
            "mon:order-invariant", "mon:count-mismatch-refused", "mon:missing-or-duplicate-refused",
            "mon:unrecognised-refused", "mon:read-routing", "mon:read-results"]

COMPS = ("ns", "ew", "vt")
LETTER = {"ns": "N", "ew": "E", "vt": "Z"}
EXAMPLES = "/repo/test/data/input"

CTX = [None]
CUR = {"fmt": "?"}
RECORD = [False]
EVENTS = []
SIG = [None]


# --------------------------------------------------------------------------------------------------
# probes
# --------------------------------------------------------------------------------------------------

def setup(ctx):
    import hvsrpy
    from hvsrpy import data_wrangler as DW
    CTX[0] = ctx
    orig = DW.read_single
    SIG[0] = inspect.signature(getattr(orig, "__wrapped_by_hvmon__", orig))

    def on_call(name, args, kwargs):
        if not RECORD[0]:
            return None
        try:
            b = SIG[0].bind(*args, **kwargs)
            b.apply_defaults()
            a = b.arguments
        except TypeError:
            a = {"fnames": args, "obspy_read_kwargs": kwargs, "degrees_from_north": "unbindable"}
        kw = a.get("obspy_read_kwargs")
        EVENTS.append({"fnames": copy.copy(a.get("fnames")),
                       "kwargs": dict(kw) if isinstance(kw, dict) else copy.copy(kw),
                       "degrees": copy.copy(a.get("degrees_from_north"))})
        return None

    probe.probe_function(DW, "read_single", on_call=on_call)
    for key, fn in list(DW.READ_FUNCTION_DICT.items()):
        if hasattr(fn, "__wrapped_by_hvmon__"):
            continue

        def make(key):
            def on_return(name, token, args, kwargs, out, exc):
                if exc is None and CTX[0] is not None:
                    CTX[0].count(f"accepted-by-{key}-reader:{CUR['fmt']}")
            return on_return
        DW.READ_FUNCTION_DICT[key] = probe.wrap_function(fn, on_return=make(key), name=key)
    assert hvsrpy.read_single is DW.read_single


class Scratch:
    def __enter__(self):
        self.d = tempfile.mkdtemp(prefix="c07-", dir=os.environ.get("HVMON_SCRATCH"))
        return self.d

    def __exit__(self, *exc):
        shutil.rmtree(self.d, ignore_errors=True)
        return False


# --------------------------------------------------------------------------------------------------
# generators
# --------------------------------------------------------------------------------------------------

FS_INT = [10, 20, 40, 50, 75, 100, 125, 128, 200, 250, 300, 500, 1000]
FS_GCF = [10, 20, 40, 50, 100, 125, 200, 250, 500, 1000]
PREFIXES = ["BH", "HH", "EH", "SH", "HN", "EN", "mixed", ""]


def pick_n(rng, big=True):
    r = rng.random()
    if big and r < 0.04:
        return 20000
    if r < 0.15:
        return int(rng.choice([10, 11, 12, 16]))
    if r < 0.75:
        return int(rng.integers(13, 600))
    return int(rng.choice([1000, 1024, 2500, 4096, 5000]))


def gen_ints(rng, n, limit=2 ** 31):
    """Three distinct int64 arrays within [-limit, limit)."""
    out = []
    mode = str(rng.choice(["full", "counts", "small"]))
    for _ in range(3):
        if mode == "full":
            x = rng.integers(-limit, limit, n)
            k = rng.choice(n, size=min(3, n), replace=False)
            x[k] = np.array([-limit, limit - 1, 0])[:len(k)]
        elif mode == "counts":
            x = np.clip(np.rint(rng.standard_normal(n) * 20000), -limit, limit - 1).astype(np.int64)
        else:
            x = rng.integers(-9, 10, n)
        out.append(x.astype(np.int64))
    return out, mode


def gen_floats(rng, n, dtype):
    scale = float(10 ** rng.uniform(-13, 6))
    return [(rng.standard_normal(n) * scale).astype(dtype) for _ in range(3)]


def codes_for(rng):
    p = str(rng.choice(PREFIXES))
    if p == "mixed":
        ps = [str(x) for x in rng.choice(["BH", "HH", "EH", "SH"], size=3)]
    else:
        ps = [p, p, p]
    return {"vt": ps[0] + "Z", "ns": ps[1] + "N", "ew": ps[2] + "E"}, p


def pick_degrees(rng, p_none=0.5):
    if rng.random() < p_none:
        return None
    pool = [0.0, 90.0, 45.5, 359.75, 360.0, 400.0, -30.0, 725.25, 15, float(np.round(rng.uniform(-720, 1080), 3))]
    return pool[int(rng.integers(0, len(pool)))]


def pick_kwargs(rng, fmt_name):
    """Reader options for read_single: None mostly, sometimes the matching explicit obspy format."""
    if fmt_name is None or rng.random() < 0.7:
        return None
    return {"format": fmt_name}


def maybe_path(rng, name):
    return pathlib.Path(name) if rng.random() < 0.15 else name


def cyc(a, b):
    return abs(((float(a) - float(b)) + 180.0) % 360.0 - 180.0)


def f64(x):
    return np.asarray(x, dtype=np.float64)


def expected(ns, ew, vt, dt, file_deg, approx=None):
    """ns/ew/vt: list of admissible float64 arrays; approx: {comp: (exact array, rtol)} or None."""
    return {"ns": ns, "ew": ew, "vt": vt, "dt": float(dt), "file_deg": file_deg, "approx": approx}


# --------------------------------------------------------------------------------------------------
# oracle
# --------------------------------------------------------------------------------------------------

def call_read_single(ctx, fnames, kwargs, deg, info, label=""):
    import hvsrpy
    kw = None if kwargs is None else dict(kwargs)
    ctx.count("read_single_calls")
    try:
        rec = hvsrpy.read_single(fnames, obspy_read_kwargs=kw, degrees_from_north=deg)
    except Exception as exc:
        if kw != kwargs:
            ctx.count("caller_reader_options_dict_modified_by_hvsrpy(not judged)")
        ctx.check(False, "reads-valid-files", f"read_single raised on a valid file set ({label}): {exc!r}",
                  variant=label, explicit_degrees=deg, reader_options=kwargs, **info)
        return None
    ctx.check(True, "reads-valid-files")
    if kw != kwargs:
        ctx.count("caller_reader_options_dict_modified_by_hvsrpy(not judged)")
    names = rec.meta.get("file name(s)") if isinstance(getattr(rec, "meta", None), dict) else None
    given = [str(f) for f in fnames] if isinstance(fnames, (list, tuple)) else [str(fnames)]
    ctx.count("meta_names_the_files" if names is not None and all(g in str(names) for g in given) else "meta_lacks_file_names")
    return rec


def judge(ctx, rec, exp, deg, info, label=""):
    """Compare one returned recording with what was stored; returns a snapshot for order comparisons."""
    got = {c: np.asarray(getattr(rec, c).amplitude) for c in COMPS}
    bad = {}
    for c in COMPS:
        g = got[c]
        ok = any(g.shape == a.shape and np.array_equal(g, a) for a in exp[c])
        if not ok and exp["approx"] is not None:
            ex, rtol = exp["approx"][c]
            ok = g.shape == ex.shape and bool(np.all(np.abs(g - ex) <= rtol * np.abs(ex)))
            if ok:
                ctx.count("scaled_samples_within_single_precision_not_bit_equal")
        if not ok:
            a = exp[c][0]
            looks_like = [o for o in COMPS if any(g.shape == b.shape and np.array_equal(g, b) for b in exp[o])]
            k = int(np.flatnonzero(g != a)[0]) if g.shape == a.shape else None
            bad[c] = {"n_got": int(g.size), "n_expected": int(a.size), "equals_stored_component": looks_like,
                      "first_difference_at": k,
                      "got": g[k:k + 4] if k is not None else g[:4], "stored": a[k:k + 4] if k is not None else a[:4]}
    ctx.check(not bad, "samples-on-right-components", f"{label}: returned samples differ from the stored samples on {sorted(bad)}",
              variant=label, differences=bad, **info)
    dts = [float(getattr(rec, c).dt_in_seconds) for c in COMPS]
    ctx.check(all(abs(d - exp["dt"]) <= 1e-12 * exp["dt"] for d in dts), "time-step",
              f"{label}: time step {dts} differs from the file's {exp['dt']!r}", variant=label, got_dt=dts, file_dt=exp["dt"], **info)
    if deg is not None:
        want = float(np.mod(float(deg), 360.0))
    else:
        want = exp["file_deg"]
    if want is None:
        ctx.count("orientation_unspecified_not_judged")
    else:
        d = rec.degrees_from_north
        ok = isinstance(d, (int, float, np.floating, np.integer)) and cyc(d, want) < 1e-9
        ctx.check(ok, "orientation", f"{label}: degrees_from_north {d!r}, expected {want!r} (mod 360)", variant=label,
                  got_degrees=d, expected_degrees=want, explicit_degrees=deg, **info)
    return tuple(got[c].tobytes() for c in COMPS) + (tuple(dts), float(rec.degrees_from_north))


def check_orders(ctx, snaps, info):
    """All orders of one file set gave the same recording."""
    snaps = [(lab, s) for lab, s in snaps if s is not None]
    if len(snaps) < 2:
        return
    ref = snaps[0][1]
    diff = [lab for lab, s in snaps[1:] if s != ref]
    ctx.check(not diff, "order-invariant", f"result depends on the trace/file order: {diff} differ from {snaps[0][0]}",
              orders_differing=diff, **info)
    ctx.count("orders_compared", len(snaps))


TEXT_SUFFIXES = (".saf", ".mshark", ".minishark", ".vt2", ".at2", ".txt")


def in_memory(fnames):
    """The same files as in-memory objects (io.BytesIO for the binary formats, io.StringIO holding the text exactly as
    stored - CR LF included - for the text formats), or None when a name is not a path on disk."""
    def one(f):
        f = str(f)
        if not os.path.isfile(f):
            return None
        if f.lower().endswith(TEXT_SUFFIXES):
            with open(f, "r", newline="") as fh:
                return io.StringIO(fh.read())
        with open(f, "rb") as fh:
            return io.BytesIO(fh.read())
    if isinstance(fnames, (list, tuple)):
        out = [one(f) for f in fnames]
        return None if any(o is None for o in out) else type(fnames)(out)
    return one(fnames)


def read_and_judge(ctx, fnames, kwargs, deg, exp, info, label):
    rec = call_read_single(ctx, fnames, kwargs, deg, info, label)
    if rec is None:
        return None
    out = judge(ctx, rec, exp, deg, info, label)
    # the same content handed over in memory (a download, an archive member): one case in four, decided from the label
    if sum(map(ord, label + str(info.get("n")))) % 4 == 0 and not isinstance(fnames, (io.IOBase,)):
        mem = in_memory(fnames)
        if mem is not None:
            ctx.count("reads_from_in_memory_objects")
            rec2 = call_read_single(ctx, mem, kwargs, deg, info, label + " [in memory]")
            if rec2 is not None:
                judge(ctx, rec2, exp, deg, info, label + " [in memory]")
    return out


# --------------------------------------------------------------------------------------------------
# builders (one valid file set each; used by the format families, the corrupted family and read())
# --------------------------------------------------------------------------------------------------

def obspy_write(ctx, fmt, writer, *args):
    """A writer of the trusted base that refuses the data is a harness limit, never a finding."""
    try:
        writer(*args)
        return True
    except Exception:
        ctx.count(f"harness_obspy_writer_refused:{fmt}")
        return False


def readback_ok(ctx, path, fmt, traces, suffix_only=False):
    """Trusted-base cross-check: obspy itself returns the written traces, in order. Returns delta or None."""
    try:
        back = FF.obspy_readback(path, fmt)
    except Exception:
        ctx.count(f"harness_obspy_roundtrip_failed:{fmt}")
        return None
    ok = len(back) == len(traces)
    if ok:
        for (ch, x), (bch, bx, _) in zip(traces, back):
            same_code = (bch[-1:] == ch[-1:]) if suffix_only else (bch == ch)
            if not same_code or bx.shape != np.shape(x) or not np.array_equal(bx, f64(x)):
                ok = False
    if not ok or len({b[2] for b in back}) != 1:
        ctx.count(f"harness_obspy_roundtrip_failed:{fmt}")
        return None
    return back[0][2]


def mseed_data(rng, n):
    enc = str(rng.choice(["INT32", "INT32", "STEIM1", "STEIM2", "FLOAT32", "FLOAT64"]))
    if enc == "INT32":
        (vt, ns, ew), mode = gen_ints(rng, n)
    elif enc == "STEIM1":
        (vt, ns, ew), mode = gen_ints(rng, n, limit=2 ** 29)
    elif enc == "STEIM2":
        (vt, ns, ew), mode = gen_ints(rng, n, limit=2 ** 27)
    else:
        vt, ns, ew = gen_floats(rng, n, FF.MSEED_DTYPES[enc])
        mode = "float"
    return {"vt": vt, "ns": ns, "ew": ew}, enc, mode


def pick_fs(rng):
    if rng.random() < 0.2:
        return float(np.round(rng.uniform(10, 1000), 2))
    return float(rng.choice(FS_INT))


def exp_from(data, dt, file_deg=0.0, cast=None):
    conv = (lambda x: f64(np.asarray(x).astype(cast))) if cast is not None else f64
    return expected([conv(data["ns"])], [conv(data["ew"])], [conv(data["vt"])], dt, file_deg)


def build_mseed1(ctx, rng, d, n, order=("vt", "ns", "ew"), tag="m1", shared=None):
    """One miniSEED file with three traces in `order`. shared = (data, enc, codes, fs, reclen, bo) to reuse."""
    if shared is None:
        data, enc, mode = mseed_data(rng, n)
        codes, prefix = codes_for(rng)
        shared = (data, enc, codes, pick_fs(rng), int(rng.choice([512, 4096])), str(rng.choice(["<", ">"])), mode, prefix)
    data, enc, codes, fs, reclen, bo = shared[:6]
    path = os.path.join(d, f"{tag}_{''.join(LETTER[c] for c in order)}.mseed")
    traces = [(codes[c], data[c]) for c in order]
    if not obspy_write(ctx, "MSEED", FF.write_mseed, path, traces, fs, enc, reclen, bo):
        return None
    ctx.count("files_written:mseed")
    delta = readback_ok(ctx, path, "MSEED", [(ch, np.asarray(x).astype(FF.MSEED_DTYPES[enc])) for ch, x in traces])
    if delta is None:
        return None
    return {"fmt": "mseed-one-file", "obspy_format": "MSEED", "fnames": path, "shared": shared,
            "exp": exp_from(data, delta, 0.0, cast=FF.MSEED_DTYPES[enc])}


def build_mseed3(ctx, rng, d, n, tag="m3"):
    data, enc, mode = mseed_data(rng, n)
    codes, prefix = codes_for(rng)
    fs, reclen, bo = pick_fs(rng), int(rng.choice([512, 4096])), str(rng.choice(["<", ">"]))
    paths, delta = {}, None
    for c in COMPS:
        paths[c] = os.path.join(d, f"{tag}_{LETTER[c]}.mseed")
        if not obspy_write(ctx, "MSEED", FF.write_mseed, paths[c], [(codes[c], data[c])], fs, enc, reclen, bo):
            return None
        ctx.count("files_written:mseed")
        delta = readback_ok(ctx, paths[c], "MSEED", [(codes[c], np.asarray(data[c]).astype(FF.MSEED_DTYPES[enc]))])
        if delta is None:
            return None
    return {"fmt": "mseed-three-files", "obspy_format": "MSEED", "paths": paths, "fnames": [paths[c] for c in COMPS],
            "exp": exp_from(data, delta, 0.0, cast=FF.MSEED_DTYPES[enc]),
            "shared": (data, enc, codes, fs, reclen, bo, mode, prefix)}


def build_sac(ctx, rng, d, n, byteorder=None, tag="sac"):
    bo = byteorder or str(rng.choice(["<", ">"]))
    if rng.random() < 0.5:
        (vt, ns, ew), mode = gen_ints(rng, n)
        vt, ns, ew = (x.astype(np.float32) for x in (vt, ns, ew))
    else:
        vt, ns, ew = gen_floats(rng, n, np.float32)
        mode = "float"
    data = {"vt": vt, "ns": ns, "ew": ew}
    codes, prefix = codes_for(rng)
    fs = pick_fs(rng)
    paths, deltas = {}, []
    for c in COMPS:
        paths[c] = os.path.join(d, f"{tag}_{LETTER[c]}_{'le' if bo == '<' else 'be'}.sac")
        if not obspy_write(ctx, "SAC", FF.write_sac, paths[c], codes[c], data[c], fs, bo):
            return None
        ctx.count("files_written:sac-" + ("little" if bo == "<" else "big"))
        delta = readback_ok(ctx, paths[c], "SAC", [(codes[c], data[c])])
        if delta is None:
            return None
        deltas.append(delta)
    if len(set(deltas)) != 1 or abs(deltas[0] - 1.0 / fs) > 1e-6:      # obspy rounds the float32 delta to 1e-6 s
        ctx.count("harness_obspy_roundtrip_failed:SAC-delta")
        return None
    return {"fmt": "sac-" + ("little" if bo == "<" else "big"), "obspy_format": "SAC", "paths": paths,
            "fnames": [paths[c] for c in COMPS], "exp": exp_from(data, deltas[0], 0.0, cast=np.float32),
            "shared": (data, "float32", codes, fs, None, bo, mode, prefix)}


def build_gcf(ctx, rng, d, n, order=("vt", "ns", "ew"), tag="g", shared=None):
    if shared is None:
        (vt, ns, ew), mode = gen_ints(rng, n, limit=2 ** 30)      # first differences must fit 32 bits for obspy's GCF codec
        codes, prefix = codes_for(rng)
        shared = ({"vt": vt, "ns": ns, "ew": ew}, "int32", codes, float(rng.choice(FS_GCF)), None, None, mode, prefix)
    data, _, codes, fs = shared[:4]
    path = os.path.join(d, f"{tag}_{''.join(LETTER[c] for c in order)}.gcf")
    traces = [(codes[c], data[c]) for c in order]
    if not obspy_write(ctx, "GCF", FF.write_gcf, path, traces, fs):
        return None
    ctx.count("files_written:gcf")
    delta = readback_ok(ctx, path, "GCF", traces, suffix_only=True)   # GCF keeps only the orientation letter
    if delta is None:
        return None
    return {"fmt": "gcf", "obspy_format": "GCF", "fnames": path, "shared": shared, "exp": exp_from(data, delta, 0.0)}


def int_text_expected(cols_by_comp, dt, file_deg):
    adm = {c: [f64(np.asarray(cols_by_comp[c]).astype(np.float32)), f64(cols_by_comp[c])] for c in COMPS}
    return expected(adm["ns"], adm["ew"], adm["vt"], dt, file_deg)


def maybe_strip_final_newline(ctx, rng, path, p=0.25):
    """A text file need not end with a line terminator (many editors and exporters leave the last row open)."""
    if rng.random() < p:
        with open(path, "rb") as f:
            raw = f.read()
        with open(path, "wb") as f:
            f.write(raw.rstrip(b"\r\n"))
        ctx.count("text_files_without_final_line_terminator")
        return True
    return False


def build_saf(ctx, rng, d, n, ch_ids=("V", "N", "E"), tag="saf", shared=None, eol=None):
    """shared = (data by comp, fs, north_rot) so that the 6 CHn_ID permutations store the same recording."""
    if shared is None:
        (vt, ns, ew), mode = gen_ints(rng, n)
        r = rng.random()
        north_rot = None if r < 0.12 else (0 if r < 0.3 else int(rng.integers(0, 360)) if r < 0.9 else int(rng.integers(360, 721)))
        if north_rot is not None and rng.random() < 0.2:
            # the orientation is a real number of degrees: decimals (12.5, 347.25) and negative values (-30) are legal
            north_rot = [float(rng.integers(0, 360)) + float(rng.choice([0.5, 0.25, 0.75])), -int(rng.integers(1, 180)),
                         -float(rng.integers(1, 90)) - 0.5][int(rng.integers(0, 3))]
        fs0 = int(rng.choice(FS_INT))
        if rng.random() < 0.15:
            # the sampling frequency is a real number of hertz: "100.0", "62.5", "12.5" are legal header values
            fs0 = str(rng.choice([f"{fs0}.0", f"{fs0}.000", "62.5", "12.5", "31.25"]))
        shared = ({"vt": vt, "ns": ns, "ew": ew}, fs0, north_rot, mode)
    data, fs_written, north_rot = shared[:3]
    fs = float(fs_written)
    eol = eol or str(rng.choice(["\n", "\r\n"]))
    by_letter = {"V": data["vt"], "N": data["ns"], "E": data["ew"]}
    path = os.path.join(d, f"{tag}_{''.join(ch_ids)}_{'crlf' if eol != chr(10) else 'lf'}.saf")
    FF.write_saf(path, [by_letter[x] for x in ch_ids], ch_ids, fs_written, north_rot, eol, rich_header=bool(rng.random() < 0.7),
                 id_line_order=[int(k) for k in rng.permutation(3)] if rng.random() < 0.35 else None)
    ctx.count("files_written:saf")
    maybe_strip_final_newline(ctx, rng, path)
    if north_rot is None:
        file_deg = 0.0
    elif ch_ids[1] == "N":
        file_deg = float(north_rot % 360)
    elif ch_ids[1] == "E":
        file_deg = float((north_rot + 90) % 360)
    else:
        file_deg = None          # V as channel 1: hvsrpy defines no NORTH_ROT semantics; the statement is silent
    return {"fmt": "saf", "obspy_format": None, "fnames": path, "shared": shared, "eol": eol, "ch_ids": ch_ids,
            "exp": int_text_expected(data, 1.0 / fs, file_deg)}


def build_minishark(ctx, rng, d, n, tag="ms", shared=None, eol=None):
    if shared is None:
        (vt, ns, ew), mode = gen_ints(rng, n)
        gain = int(rng.choice([1, 1, 2, 4, 8, 16, 32, 64, 3, 10, 100, 128]))
        conv = int(rng.choice([1, 1, 2, 1000, 65536, 52428, 131072, 7, 999983, 33554433]))
        shared = ({"vt": vt, "ns": ns, "ew": ew}, int(rng.choice(FS_INT)), gain, conv, mode)
    data, fs, gain, conv = shared[:4]
    eol = eol or str(rng.choice(["\n", "\r\n"]))
    path = os.path.join(d, f"{tag}_{'crlf' if eol != chr(10) else 'lf'}.minishark")
    FF.write_minishark(path, data["vt"], data["ns"], data["ew"], fs, gain, conv, eol)
    ctx.count("files_written:minishark")
    maybe_strip_final_newline(ctx, rng, path)
    adm, approx = {}, {}
    for c in COMPS:
        x32 = np.asarray(data[c]).astype(np.float32)
        pipe = (x32 / np.float32(gain)) / np.float32(conv)
        exact = f64(data[c]) / float(gain) / float(conv)
        adm[c] = [f64(pipe), exact]
        approx[c] = (exact, 4e-7)
    exp = expected(adm["ns"], adm["ew"], adm["vt"], 1.0 / fs, 0.0, approx=None if gain == conv == 1 else approx)
    return {"fmt": "minishark", "obspy_format": None, "fnames": path, "shared": shared, "eol": eol, "exp": exp}


PEER_DT = {10: "0.1000", 20: "0.0500", 40: "0.0250", 50: "0.0200", 100: "0.0100", 125: "0.0080", 200: "0.0050",
           250: "0.0040", 500: "0.0020", 1000: "0.0010"}


def build_peer(ctx, rng, d, n, tag="peer"):
    fs = int(rng.choice(sorted(PEER_DT)))
    dt_text = PEER_DT[fs]
    r = rng.random()
    if r < 0.3:
        dt_text = dt_text[1:]                      # '.0200' as in the PEER database
    elif r < 0.45:
        dt_text = dt_text + "0"
    style = str(rng.choice(["C", "F"]))
    eol = str(rng.choice(["\n", "\r\n"]))
    scheme = str(rng.choice(["UP", "VER", "letters"]))
    if scheme == "letters":
        pre = str(rng.choice(list("FGDCESHB"))) + str(rng.choice(list("HLGMN")))
        codes = {"vt": pre + "Z", "ns": pre + "N", "ew": pre + "E"}
        file_deg, h = 0.0, None
    else:
        r = rng.random()
        h = 0 if r < 0.3 else (45 if r < 0.4 else (int(rng.integers(1, 45)) if r < 0.75 else int(rng.integers(316, 360))))
        if h == 0:
            hn = str(rng.choice(["360", "000", "0"]))
        else:
            hn = ("%03d" % h) if rng.random() < 0.6 else str(h)
        # the second horizontal is 90 degrees clockwise of the first (a right-handed pair), e.g. 350 / 080
        he = ("%03d" % ((h + 90) % 360)) if (len(hn) == 3) else str((h + 90) % 360)
        codes = {"vt": scheme, "ns": hn, "ew": he}
        file_deg = float(h % 360)
    unequal = rng.random() < 0.3
    ns_ = {c: (n + int(rng.integers(0, 8)) if unequal else n) for c in COMPS}
    keep = min(ns_.values())
    scale = float(10 ** rng.uniform(-13, 3))      # any physical unit: ambient noise in g or in m is ~1e-9 and below
    paths, vals = {}, {}
    for c in COMPS:
        v = rng.standard_normal(ns_[c]) * scale
        v[int(rng.integers(0, ns_[c]))] = 0.0
        toks = [FF.peer_token(x, style) for x in v]
        vals[c] = np.array([float(t) for t in toks], dtype=np.float64)[:keep]
        paths[c] = os.path.join(d, f"{tag}_{codes[c]}.vt2")
        FF.write_peer(paths[c], toks, codes[c], dt_text, eol=eol)
        ctx.count("files_written:peer")
        maybe_strip_final_newline(ctx, rng, paths[c])
    exp = expected([vals["ns"]], [vals["ew"]], [vals["vt"]], float(dt_text), file_deg)
    return {"fmt": "peer", "obspy_format": None, "paths": paths, "fnames": [paths[c] for c in COMPS], "exp": exp,
            "codes": codes, "style": style, "eol": eol, "dt_text": dt_text, "npts": ns_, "fs": fs, "scheme": scheme}


ORDERS = list(itertools.permutations(COMPS))


def order_label(order):
    return "".join(LETTER[c] for c in order)


# --------------------------------------------------------------------------------------------------
# format families
# --------------------------------------------------------------------------------------------------

def fam_mseed_one(ctx, rng):
    n = pick_n(rng)
    deg, kw = pick_degrees(rng), pick_kwargs(rng, "MSEED")
    CUR["fmt"] = "mseed-one-file"
    with Scratch() as d:
        shared, snaps, info = None, [], None
        for order in ORDERS:
            fs_ = build_mseed1(ctx, rng, d, n, order, shared=shared)
            if fs_ is None:
                return
            shared = fs_["shared"]
            if info is None:
                info = dict(fmt="mseed-one-file", n=n, fs=shared[3], encoding=shared[1], codes=shared[2], record_length=shared[4],
                            byteorder=shared[5], samples=shared[6])
                ctx.describe(**info, explicit_degrees=deg, reader_options=kw, trace_orders=[order_label(o) for o in ORDERS])
            ctx.count("file_sets:mseed-one-file")
            snaps.append((order_label(order), read_and_judge(ctx, maybe_path(rng, fs_["fnames"]), kw, deg, fs_["exp"], info,
                                                             "traces in file order " + order_label(order))))
        check_orders(ctx, snaps, info)
    ctx.nontrivial(["mseed1", n, shared[3], shared[1], shared[7], shared[4], shared[5], deg is None, kw is None])
    ctx.state(["mseed1", shared[1], shared[7], shared[5]])


def three_file_orders(ctx, rng, fs_, info, deg, kw):
    snaps = []
    for order in ORDERS:
        names = [fs_["paths"][c] for c in order]
        if rng.random() < 0.2:
            names = tuple(names)
        snaps.append((order_label(order), read_and_judge(ctx, names, kw, deg, fs_["exp"], info, "files in list order " + order_label(order))))
    check_orders(ctx, snaps, info)


def fam_mseed_three(ctx, rng):
    n = pick_n(rng)
    deg, kw = pick_degrees(rng), pick_kwargs(rng, "MSEED")
    CUR["fmt"] = "mseed-three-files"
    with Scratch() as d:
        fs_ = build_mseed3(ctx, rng, d, n)
        if fs_ is None:
            return
        sh = fs_["shared"]
        info = dict(fmt="mseed-three-files", n=n, fs=sh[3], encoding=sh[1], codes=sh[2], record_length=sh[4], byteorder=sh[5], samples=sh[6])
        ctx.describe(**info, explicit_degrees=deg, reader_options=kw, file_orders=[order_label(o) for o in ORDERS])
        ctx.count("file_sets:mseed-three-files")
        three_file_orders(ctx, rng, fs_, info, deg, kw)
    ctx.nontrivial(["mseed3", n, sh[3], sh[1], sh[7], sh[4], sh[5], deg is None, kw is None])
    ctx.state(["mseed3", sh[1], sh[7], sh[5]])


def fam_sac(ctx, rng):
    n = pick_n(rng)
    deg, kw = pick_degrees(rng), pick_kwargs(rng, "SAC")
    with Scratch() as d:
        fs_ = build_sac(ctx, rng, d, n)
        if fs_ is None:
            return
        CUR["fmt"] = fs_["fmt"]
        sh = fs_["shared"]
        info = dict(fmt=fs_["fmt"], n=n, fs=sh[3], codes=sh[2], byteorder=sh[5], samples=sh[6])
        ctx.describe(**info, explicit_degrees=deg, reader_options=kw, file_orders=[order_label(o) for o in ORDERS])
        ctx.count("file_sets:" + fs_["fmt"])
        three_file_orders(ctx, rng, fs_, info, deg, kw)
    ctx.nontrivial(["sac", n, sh[3], sh[7], sh[5], sh[6], deg is None, kw is None])
    ctx.state(["sac", sh[7], sh[5]])


def fam_gcf(ctx, rng):
    n = pick_n(rng)
    deg, kw = pick_degrees(rng), pick_kwargs(rng, "GCF")
    CUR["fmt"] = "gcf"
    with Scratch() as d:
        shared, snaps, info = None, [], None
        for order in ORDERS:
            fs_ = build_gcf(ctx, rng, d, n, order, shared=shared)
            if fs_ is None:
                return
            shared = fs_["shared"]
            if info is None:
                info = dict(fmt="gcf", n=n, fs=shared[3], codes=shared[2], samples=shared[6])
                ctx.describe(**info, explicit_degrees=deg, reader_options=kw, trace_orders=[order_label(o) for o in ORDERS])
            ctx.count("file_sets:gcf")
            snaps.append((order_label(order), read_and_judge(ctx, maybe_path(rng, fs_["fnames"]), kw, deg, fs_["exp"], info,
                                                             "traces in file order " + order_label(order))))
        check_orders(ctx, snaps, info)
    ctx.nontrivial(["gcf", n, shared[3], shared[7], shared[6], deg is None, kw is None])
    ctx.state(["gcf", shared[7], shared[3]])


def fam_saf(ctx, rng):
    n = pick_n(rng)
    deg = pick_degrees(rng)
    CUR["fmt"] = "saf"
    with Scratch() as d:
        shared, info = None, None
        by_deg = {}
        for ch_ids in itertools.permutations("VNE"):
            fs_ = build_saf(ctx, rng, d, n, ch_ids, shared=shared)
            shared = fs_["shared"]
            if info is None:
                info = dict(fmt="saf", n=n, fs=shared[1], north_rot=shared[2], samples=shared[3])
                ctx.describe(**info, explicit_degrees=deg, channel_id_orders=["".join(p) for p in itertools.permutations("VNE")])
            ctx.count("file_sets:saf")
            lab = f"CH0..2_ID = {''.join(ch_ids)}, {'CRLF' if fs_['eol'] != chr(10) else 'LF'}"
            if fs_["exp"]["file_deg"] is None and deg is None:
                # V is channel 1 and no explicit orientation: an exception is admissible, a recording must hold the samples
                import hvsrpy
                ctx.count("read_single_calls")
                try:
                    rec = hvsrpy.read_single(fs_["fnames"])
                except Exception:
                    ctx.count("saf_vertical_as_channel_1_refused_not_judged")
                    continue
                snap_ = judge(ctx, rec, fs_["exp"], deg, info, lab)
            else:
                snap_ = read_and_judge(ctx, maybe_path(rng, fs_["fnames"]), None, deg, fs_["exp"], info, lab)
            if snap_ is not None:
                # samples/dt must agree across all channel orders; orientation only among files with the same expected value
                by_deg.setdefault("all", []).append((lab, snap_[:4]))
        check_orders(ctx, by_deg.get("all", []), info)
    ctx.nontrivial(["saf", n, shared[1], shared[2], shared[3], deg is None])
    ctx.state(["saf", shared[2] is None, deg is None])


def fam_minishark(ctx, rng):
    n = pick_n(rng)
    deg = pick_degrees(rng)
    CUR["fmt"] = "minishark"
    with Scratch() as d:
        snaps, shared, info = [], None, None
        for eol in ("\n", "\r\n"):
            fs_ = build_minishark(ctx, rng, d, n, shared=shared, eol=eol)
            shared = fs_["shared"]
            if info is None:
                info = dict(fmt="minishark", n=n, fs=shared[1], gain=shared[2], conversion=shared[3], samples=shared[4])
                ctx.describe(**info, explicit_degrees=deg, line_endings=["LF", "CRLF"])
            ctx.count("file_sets:minishark")
            snaps.append(("CRLF" if eol != "\n" else "LF", read_and_judge(ctx, maybe_path(rng, fs_["fnames"]), None, deg, fs_["exp"], info,
                                                                          "line ending " + ("CRLF" if eol != "\n" else "LF"))))
        check_orders(ctx, snaps, info)
    if shared[2] != 1 or shared[3] != 1 or deg is not None:
        ctx.nontrivial(["minishark", n, shared[1], shared[2], shared[3], shared[4], deg is None])
    ctx.state(["minishark", shared[2], shared[3]])


def fam_peer(ctx, rng):
    n = pick_n(rng)
    deg = pick_degrees(rng)
    CUR["fmt"] = "peer"
    with Scratch() as d:
        fs_ = build_peer(ctx, rng, d, n)
        info = dict(fmt="peer", n=n, fs=fs_["fs"], dt_text=fs_["dt_text"], codes=fs_["codes"], number_style=fs_["style"],
                    line_ending="CRLF" if fs_["eol"] != "\n" else "LF", npts=fs_["npts"])
        ctx.describe(**info, explicit_degrees=deg, file_orders=[order_label(o) for o in ORDERS])
        ctx.count("file_sets:peer")
        three_file_orders(ctx, rng, fs_, info, deg, None)
    ctx.nontrivial(["peer", n, fs_["dt_text"], sorted(fs_["codes"].values()), fs_["style"], fs_["eol"], sorted(fs_["npts"].values()), deg is None])
    ctx.state(["peer", fs_["scheme"], fs_["codes"]["ns"], fs_["style"]])


# --------------------------------------------------------------------------------------------------
# corrupted variants
# --------------------------------------------------------------------------------------------------

KIND_OF = {"count": "count-mismatch-refused", "component": "missing-or-duplicate-refused", "file": "unrecognised-refused"}


def expect_refusal(ctx, fnames, cls, label, info):
    import hvsrpy
    ctx.count("read_single_calls")
    try:
        rec = hvsrpy.read_single(fnames)
    except Exception as exc:
        ctx.count(f"refused:{info['fmt']}:{label}")
        ctx.count("refused_with:" + type(exc).__name__)
        ctx.check(True, KIND_OF[cls])
        return
    same = bool(np.array_equal(rec.ns.amplitude, rec.ew.amplitude))
    ctx.check(False, KIND_OF[cls], f"{info['fmt']}: {label} yielded a recording instead of an error",
              variant=label, yielded={"n_samples": int(rec.ns.n_samples), "degrees_from_north": rec.degrees_from_north,
                                      "ns_equals_ew": same, "files": rec.meta.get("file name(s)")}, **info)


def write_bytes(path, data):
    with open(path, "wb") as f:
        f.write(data)
    return path


def junk_files(ctx, rng, d, info, valid_path, as_list):
    """Truncated / empty / garbage variants of one valid file (as_list: how to present a replacement to read_single)."""
    with open(valid_path, "rb") as f:
        raw = f.read()
    k = int(rng.integers(1, min(48, len(raw))))
    variants = [("truncated to %d bytes" % k, raw[:k]), ("empty file", b""),
                ("random bytes", rng.integers(0, 256, int(rng.integers(16, 4000)), dtype=np.uint8).tobytes()),
                ("random printable text", bytes(rng.choice(np.frombuffer(b"0123456789 -.\t\nABCDEFNVZ=#,", dtype=np.uint8),
                                                           int(rng.integers(16, 2000))).tolist()))]
    lab, data = variants[int(rng.integers(0, len(variants)))]
    p = write_bytes(os.path.join(d, "junk" + os.path.splitext(valid_path)[1]), data)
    expect_refusal(ctx, as_list(p), "file", lab, info)


def corrupt_obspy_multi(ctx, rng, d, which):
    """miniSEED-one-file / GCF: traces of one file."""
    n = int(rng.integers(10, 400))
    build = build_mseed1 if which == "mseed-one-file" else build_gcf
    fs_ = build(ctx, rng, d, n)
    if fs_ is None:
        return None
    sh = fs_["shared"]
    data, codes, fs = sh[0], sh[2], sh[3]
    info = dict(fmt=which, n=n, fs=fs, codes=codes)
    ctx.describe(**info, corrupted=True)
    read_and_judge(ctx, fs_["fnames"], None, None, fs_["exp"], info, "control (uncorrupted)")

    def write(traces, name):
        p = os.path.join(d, name)
        if which == "mseed-one-file":
            FF.write_mseed(p, traces, fs, sh[1], sh[4], sh[5])
        else:
            FF.write_gcf(p, traces, fs)
        return p
    z, nn, e = (codes["vt"], data["vt"]), (codes["ns"], data["ns"]), (codes["ew"], data["ew"])
    other = ("BHN" if codes["ns"] != "BHN" else "HHN", data["ew"])
    sets = [("two traces (east missing)", [z, nn]), ("two traces (vertical missing)", [nn, e]),
            ("north twice, east missing", [z, nn, (codes["ns"], data["ew"])]), ("two north codes, east missing", [z, nn, other]),
            ("four traces (east twice)", [z, nn, e, (("BHE" if codes["ew"] != "BHE" else "HHE"), data["ns"])]),
            ("horizontal named 1 instead of E", [z, nn, (codes["ew"][:-1] + "1", data["ew"])])]
    rng.shuffle(sets)
    for lab, traces in sets[:4]:
        traces = [traces[i] for i in rng.permutation(len(traces))]
        try:
            bad = write(traces, "bad.bin")
        except Exception:
            ctx.count(f"harness_could_not_write_variant:{which}:{lab}")
            continue
        expect_refusal(ctx, bad, "component", lab, info)
    junk_files(ctx, rng, d, info, fs_["fnames"], lambda p: p)
    return info


def corrupt_three_files(ctx, rng, d, which):
    """miniSEED three files / SAC / PEER."""
    n = int(rng.integers(10, 400))
    if which == "mseed-three-files":
        fs_ = build_mseed3(ctx, rng, d, n)
    elif which == "sac":
        fs_ = build_sac(ctx, rng, d, n)
    else:
        fs_ = build_peer(ctx, rng, d, n)
    if fs_ is None:
        return None
    P = fs_["paths"]
    info = dict(fmt=fs_["fmt"], n=n)
    if which == "peer":
        info.update(codes=fs_["codes"], npts=fs_["npts"], number_style=fs_["style"])
    else:
        info.update(codes=fs_["shared"][2], fs=fs_["shared"][3])
    ctx.describe(**info, corrupted=True)
    read_and_judge(ctx, fs_["fnames"], None, None, fs_["exp"], info, "control (uncorrupted)")
    sets = [("two files (vertical + north)", [P["vt"], P["ns"]]), ("two files (vertical + east)", [P["vt"], P["ew"]]),
            ("two files (north + east)", [P["ns"], P["ew"]]),
            ("north file twice, east missing", [P["vt"], P["ns"], P["ns"]]), ("east file twice, north missing", [P["vt"], P["ew"], P["ew"]]),
            ("vertical file twice, east missing", [P["vt"], P["vt"], P["ns"]]),
            ("four files (east twice)", [P["vt"], P["ns"], P["ew"], P["ew"]])]
    rng.shuffle(sets)
    if which == "peer" and str(fs_["codes"]["ns"]).isdigit():
        # a second file of the SAME horizontal direction written with another spelling of its azimuth code (000 / 360 / 0,
        # 045 / 45, 350 / -10 is not legal): the north component twice, the east one missing
        code = str(fs_["codes"]["ns"])
        h = int(code) % 360
        alts = [a for a in (["000", "360", "0"] if h == 0 else ["%03d" % h, str(h)]) if a != code]
        if alts:
            alt = alts[int(rng.integers(0, len(alts)))]
            parsed = FF.parse_peer(P["ns"])
            other = os.path.join(d, "north_again.vt2")
            FF.write_peer(other, [FF.peer_token(v, fs_["style"]) for v in parsed["data"] * 0.5], alt, fs_["dt_text"], eol=fs_["eol"])
            sets.insert(0, (f"north component twice under two spellings of its azimuth code ({code} and {alt}), east missing",
                            [P["vt"], P["ns"], other]))
    for lab, names in sets[:4]:
        names = [names[i] for i in rng.permutation(len(names))]
        expect_refusal(ctx, names, "component", lab, info)
    # sample count against the header
    c = str(rng.choice(COMPS))
    delta = int(rng.choice([-5, -1, 1, 5, 100]))
    if which == "sac":
        bad = os.path.join(d, "npts.sac")
        shutil.copy(P[c], bad)
        FF.patch_sac_npts(bad, fs_["shared"][5], max(1, n + delta))
        expect_refusal(ctx, [bad if k == c else P[k] for k in COMPS], "count", f"NPTS header = samples {delta:+d}", info)
        with open(P[c], "rb") as f:
            raw = f.read()
        cut = int(rng.integers(1, n)) * 4
        write_bytes(bad, raw[:-cut])
        expect_refusal(ctx, [bad if k == c else P[k] for k in COMPS], "count", "data section shorter than NPTS", info)
    elif which == "peer":
        bad = os.path.join(d, "npts.vt2")
        parsed = FF.parse_peer(P[c])
        toks = [FF.peer_token(v, fs_["style"]) for v in parsed["data"]]
        FF.write_peer(bad, toks, fs_["codes"][c], fs_["dt_text"], npts=max(1, len(toks) + delta), eol=fs_["eol"])
        expect_refusal(ctx, [bad if k == c else P[k] for k in COMPS], "count", f"NPTS header = samples {delta:+d}", info)
    junk_files(ctx, rng, d, info, P[c], lambda p: [p if k == c else P[k] for k in COMPS])
    return info


def corrupt_text_single(ctx, rng, d, which):
    """SAF / MiniShark."""
    n = int(rng.integers(10, 400))
    # SAF: vertical never as channel 1 here, so that a refusal is due to the corruption and not to the channel layout
    saf_ids = [("V", "N", "E"), ("V", "E", "N"), ("N", "E", "V"), ("E", "N", "V")][int(rng.integers(0, 4))]
    fs_ = build_saf(ctx, rng, d, n, saf_ids) if which == "saf" else build_minishark(ctx, rng, d, n)
    sh = fs_["shared"]
    data, fs = sh[0], sh[1]
    info = dict(fmt=which, n=n, fs=fs, line_ending="CRLF" if fs_["eol"] != "\n" else "LF")
    if which == "saf":
        info.update(ch_ids="".join(fs_["ch_ids"]))
    ctx.describe(**info, corrupted=True)
    read_and_judge(ctx, fs_["fnames"], None, 0.0, fs_["exp"], info, "control (uncorrupted)")
    bad = os.path.join(d, "bad" + os.path.splitext(fs_["fnames"])[1])
    eol = fs_["eol"]
    for delta in rng.choice([-7, -1, 1, 2, 50], size=2, replace=False):
        delta = int(delta)
        if which == "saf":
            ids = fs_["ch_ids"]
            by = {"V": data["vt"], "N": data["ns"], "E": data["ew"]}
            FF.write_saf(bad, [by[x] for x in ids], ids, fs, 0, eol, ndat=max(0, n + delta))
        else:
            FF.write_minishark(bad, data["vt"], data["ns"], data["ew"], fs, sh[2], sh[3], eol, npts=max(0, n + delta))
        expect_refusal(ctx, bad, "count", f"header count = rows {delta:+d}", info)
    # a file cut in the middle of the rows: fewer rows than announced
    with open(fs_["fnames"], "rb") as f:
        raw = f.read()
    rows_at = raw.rfind(b"#")
    cut = int(rng.integers(rows_at + (len(raw) - rows_at) // 3, len(raw) - 3 * len(eol) - 12))
    write_bytes(bad, raw[:cut])
    expect_refusal(ctx, bad, "count", "file cut in the middle of the rows", info)
    # components
    if which == "saf":
        ids = fs_["ch_ids"]
        by = {"V": data["vt"], "N": data["ns"], "E": data["ew"]}
        cols = [by[x] for x in ids]
        FF.write_saf(bad, cols, ids, fs, 0, eol, ncols=2)
        expect_refusal(ctx, bad, "component", "rows hold two columns only", info)
        drop = int(rng.integers(0, 3))
        FF.write_saf(bad, cols, ids, fs, 0, eol, ids_written=[(i, x) for i, x in enumerate(ids) if i != drop])
        expect_refusal(ctx, bad, "component", f"CH{drop}_ID line ({ids[drop]}) missing", info)
        a, b = (int(v) for v in rng.choice(3, size=2, replace=False))
        dup = list(ids)
        dup[b] = dup[a]
        FF.write_saf(bad, cols, ids, fs, 0, eol, ids_written=list(enumerate(dup)))
        expect_refusal(ctx, bad, "component", f"CHn_ID = {''.join(dup)} (one component named twice, one missing)", info)
    else:
        FF.write_minishark(bad, data["vt"], data["ns"], data["ew"], fs, sh[2], sh[3], eol, ncols=2)
        expect_refusal(ctx, bad, "component", "rows hold two columns only", info)
    junk_files(ctx, rng, d, info, fs_["fnames"], lambda p: p)
    return info


CORRUPT = ["mseed-one-file", "gcf", "mseed-three-files", "sac", "peer", "saf", "minishark", "peer"]


def fam_corrupted(ctx, rng):
    which = CORRUPT[int(rng.integers(0, len(CORRUPT)))]
    CUR["fmt"] = which + "(corrupted)"
    with Scratch() as d:
        if which in ("mseed-one-file", "gcf"):
            info = corrupt_obspy_multi(ctx, rng, d, which)
        elif which in ("mseed-three-files", "sac", "peer"):
            info = corrupt_three_files(ctx, rng, d, which)
        else:
            info = corrupt_text_single(ctx, rng, d, which)
    if info is not None:
        ctx.nontrivial(["corrupted", which, info["n"], info.get("fs"), str(info.get("codes"))])
        ctx.state(["corrupted", which])


# --------------------------------------------------------------------------------------------------
# read(): routing of the optional arguments
# --------------------------------------------------------------------------------------------------

ROUTE_FORMATS = ["mseed-one-file", "mseed-three-files", "sac", "gcf", "saf", "minishark", "peer"]
OBSPY_KINDS = [("mseed-one-file", "mseed-three-files"), ("sac",), ("gcf",)]


def build_any(ctx, rng, d, which, n, tag):
    if which == "mseed-one-file":
        return build_mseed1(ctx, rng, d, n, ORDERS[int(rng.integers(0, 6))], tag=tag)
    if which == "mseed-three-files":
        return build_mseed3(ctx, rng, d, n, tag=tag)
    if which == "sac":
        return build_sac(ctx, rng, d, n, tag=tag)
    if which == "gcf":
        return build_gcf(ctx, rng, d, n, ORDERS[int(rng.integers(0, 6))], tag=tag)
    if which == "saf":
        ids = [("V", "N", "E"), ("V", "E", "N"), ("N", "E", "V"), ("E", "N", "V")][int(rng.integers(0, 4))]
        return build_saf(ctx, rng, d, n, ids, tag=tag)
    if which == "minishark":
        return build_minishark(ctx, rng, d, n, tag=tag)
    return build_peer(ctx, rng, d, n, tag=tag)


def names_list(x):
    return [str(v) for v in x] if isinstance(x, (list, tuple)) else [str(x)]


def routing_discrepancies(events, wanted):
    """Offline checker: the sequence of read_single call events against the expected per-recording triples."""
    out = []
    if len(events) != len(wanted):
        out.append(f"{len(events)} read_single call(s) for {len(wanted)} recording(s)")
    for i, (ev, w) in enumerate(zip(events, wanted)):
        if names_list(ev["fnames"]) != names_list(w["fnames"]):
            out.append(f"recording {i}: files {ev['fnames']!r} instead of {w['fnames']!r}")
        ek, wk = ev["kwargs"], w["kwargs"]
        if wk is None:
            if not (ek is None or ek == {}):
                out.append(f"recording {i}: reader options {ek!r} instead of None")
        elif not isinstance(ek, dict) or any(k not in ek or ek[k] != v for k, v in wk.items()) or (set(ek) - set(wk) - {"byteorder"}):
            out.append(f"recording {i}: reader options {ek!r} instead of {wk!r}")
        ed, wd = ev["degrees"], w["degrees"]
        if wd is None:
            if ed is not None:
                out.append(f"recording {i}: degrees_from_north {ed!r} instead of None")
        elif isinstance(ed, bool) or not isinstance(ed, (int, float, np.floating, np.integer)) or float(ed) != float(wd):
            out.append(f"recording {i}: degrees_from_north {ed!r} instead of {wd!r}")
    return out


def kwargs_type_rule_explains(kwargs_form, degrees_form, dg_arg, events, err):
    """True when what was observed is exactly what 'broadcast degrees_from_north according to the TYPE OF
    obspy_read_kwargs' produces (evidence for classifying the finding; the verdict does not depend on it)."""
    if (kwargs_form == "list") == (degrees_form == "list"):
        return False
    if kwargs_form == "list":            # a scalar / None is zipped as if it were the per-recording iterable
        return isinstance(err, TypeError) and not events
    return bool(events) and all(isinstance(e["degrees"], (list, tuple)) and list(e["degrees"]) == list(dg_arg) for e in events)


def fam_read(ctx, rng):
    import hvsrpy
    k = int(rng.integers(1, 5))
    k, many = gen.maybe_large(rng, ctx, k, [9, 12, 20, 40], p_quick=0.04, p_thorough=0.04)   # a whole campaign in one call
    kwargs_form = str(rng.choice(["none", "dict", "list"]))
    degrees_form = str(rng.choice(["none", "scalar", "list"]))
    CUR["fmt"] = "read()"
    with Scratch() as d:
        sets = []
        pool = ROUTE_FORMATS
        if kwargs_form == "dict":
            # one dict for all recordings can name one obspy format only (auto-detection by obspy is not under test)
            one = OBSPY_KINDS[int(rng.integers(0, len(OBSPY_KINDS)))]
            pool = [f for f in ROUTE_FORMATS if f in one or f in ("saf", "minishark", "peer")]
        for i in range(k):
            which = pool[int(rng.integers(0, len(pool)))]
            fs_ = build_any(ctx, rng, d, which, 20000 if (many and i == 0) else int(rng.integers(10, 300)), tag=f"r{i}")
            if fs_ is None:
                return
            if isinstance(fs_["fnames"], list):
                order = rng.permutation(3)
                fs_["fnames"] = [fs_["fnames"][j] for j in order]
            elif rng.random() < 0.5:
                fs_["fnames"] = [fs_["fnames"]]              # a one-entry list is unwrapped by read()
            sets.append(fs_)
        fnames = [copy.copy(s["fnames"]) for s in sets]
        if rng.random() < 0.2:
            fnames = tuple(fnames)

        def options(i, with_format):
            o = {"nearest_sample": bool((i >> 0) & 1), "check_compression": bool((i >> 1) & 1)}
            if with_format and sets[i]["obspy_format"] is not None:
                o["format"] = sets[i]["obspy_format"]
            return o
        if kwargs_form == "none":
            kw_arg, kw_each = None, [None] * k
        elif kwargs_form == "dict":
            fmts = {s["obspy_format"] for s in sets} - {None}
            kw_arg = {"nearest_sample": bool(rng.random() < 0.5), "check_compression": bool(rng.random() < 0.5)}
            if fmts:
                kw_arg["format"] = fmts.pop()
            if rng.random() < 0.3:
                del kw_arg["check_compression"]
            kw_each = [dict(kw_arg)] * k
        else:
            kw_arg = [options(i, True) for i in range(k)]
            kw_each = [dict(o) for o in kw_arg]
            if rng.random() < 0.25:
                kw_arg = tuple(kw_arg)
        if degrees_form == "none":
            dg_arg, dg_each = None, [None] * k
        elif degrees_form == "scalar":
            dg_arg = pick_degrees(rng, p_none=0.0)
            dg_each = [dg_arg] * k
        else:
            dg_each = [float(np.round(rng.uniform(-360, 720), 2)) if rng.random() < 0.8 else float(37 * (i + 1)) for i in range(k)]
            if rng.random() < 0.35:
                # per recording, None means "the orientation stored in the file (or 0)"; integers are fine too
                dg_each = [None if rng.random() < 0.5 else (int(round(v)) if rng.random() < 0.3 else v) for v in dg_each]
            dg_arg = tuple(dg_each) if rng.random() < 0.25 else list(dg_each)
        wanted = [{"fnames": s["fnames"], "kwargs": kw_each[i], "degrees": dg_each[i]} for i, s in enumerate(sets)]
        mismatched = (kwargs_form == "list") != (degrees_form == "list")
        info = dict(fmt="read()", recordings=k, formats=[s["fmt"] for s in sets], kwargs_form=kwargs_form, degrees_form=degrees_form,
                    per_recording_forms_differ=mismatched)
        ctx.describe(**info, obspy_read_kwargs=kw_arg, degrees_from_north=dg_arg,
                     files=[[os.path.basename(f) for f in names_list(s["fnames"])] for s in sets])
        ctx.count(f"read_calls:kwargs={kwargs_form},degrees={degrees_form}")
        del EVENTS[:]
        RECORD[0] = True
        err, out = None, None
        try:
            out = hvsrpy.read(fnames, obspy_read_kwargs=kw_arg, degrees_from_north=dg_arg)
        except Exception as exc:
            err = exc
        finally:
            RECORD[0] = False
        events = list(EVENTS)
        ctx.count("read_single_events_observed", len(events))
        now = [kw_arg] * k if isinstance(kw_arg, dict) else (list(kw_arg) if kw_arg is not None else [None] * k)
        if any(a != b for a, b in zip(now, kw_each)):
            ctx.count("caller_reader_options_dict_modified_by_hvsrpy(not judged)")
        problems = routing_discrepancies(events, wanted) if err is None else \
            [f"read() raised {err!r} after {len(events)} read_single call(s)"] + routing_discrepancies(events, wanted[:len(events)])
        ctx.check(not problems, "read-routing", "read() did not hand every recording its own degrees_from_north / reader options: "
                  + "; ".join(problems[:4]), problems=problems, exception=repr(err) if err is not None else None,
                  events=[{"files": [os.path.basename(f) for f in names_list(e["fnames"])], "kwargs": e["kwargs"], "degrees": e["degrees"]}
                          for e in events], expected_degrees=dg_each, expected_kwargs=kw_each,
                  explained_by_kwargs_type_rule=kwargs_type_rule_explains(kwargs_form, degrees_form, dg_arg, events, err), **info)
        if out is not None:
            ok = isinstance(out, list) and len(out) == k
            ctx.check(ok, "read-results", f"read() returned {type(out).__name__} of {len(out) if hasattr(out, '__len__') else '?'} for {k} recordings", **info)
            if ok:
                for i, (rec, s) in enumerate(zip(out, sets)):
                    if s["exp"]["file_deg"] is None and dg_each[i] is None:
                        continue
                    judge(ctx, rec, s["exp"], dg_each[i], info, f"recording {i} of read() ({s['fmt']})")
                    ctx.count("read_results_judged")
    if k > 1 or kwargs_form == "list" or degrees_form == "list":
        ctx.nontrivial(["read", k, [s["fmt"] for s in sets], kwargs_form, degrees_form])
    ctx.state(["read", kwargs_form, degrees_form, k])


def fam_options_reused(ctx, rng):
    """One reader-options dict kept by a script and handed to successive read_single calls (SAC sets of both byte
    orders, text formats in between): every recording must still be read from its own files."""
    import hvsrpy
    k = int(rng.integers(2, 5))
    opts = {"format": "SAC"} if rng.random() < 0.6 else {}
    start = dict(opts)
    CUR["fmt"] = "read_single() with one options dict"
    with Scratch() as d:
        first_bo = str(rng.choice(["<", ">"]))
        seq = []
        for i in range(k):
            which = str(rng.choice(["sac", "sac", "sac", "saf", "minishark", "peer"])) if i else "sac"
            n = int(rng.integers(10, 300))
            if which == "sac":
                bo = first_bo if i == 0 else ("<" if (first_bo == ">") == (i % 2 == 1) or rng.random() < 0.3 else ">")
                fs_ = build_sac(ctx, rng, d, n, byteorder=bo, tag=f"o{i}")
            else:
                fs_ = build_any(ctx, rng, d, which, n, tag=f"o{i}")
            if fs_ is None:
                return
            seq.append(fs_)
        info = dict(fmt="read_single() with one options dict", formats=[s["fmt"] for s in seq], options_at_start=start)
        ctx.describe(**info)
        for i, s_ in enumerate(seq):
            deg = pick_degrees(rng)
            ctx.count("read_single_calls")
            label = f"call {i} ({s_['fmt']}) with the options dict of the calls before: {opts!r}"
            try:
                rec = hvsrpy.read_single(s_["fnames"], obspy_read_kwargs=opts, degrees_from_north=deg)
            except Exception as exc:
                ctx.check(False, "reads-valid-files", f"read_single raised on a valid file set ({label}): {exc!r}",
                          mechanism="options-dict-carries-state-between-reads", variant=label, explicit_degrees=deg, **info)
                continue
            ctx.check(True, "reads-valid-files")
            if s_["exp"]["file_deg"] is None and deg is None:
                continue
            judge(ctx, rec, s_["exp"], deg, info, label)
        ctx.count("sequences_with_one_options_dict")
        # the same through read(): one dict for all recordings
        obspy_only = [s_ for s_ in seq if s_["obspy_format"] == "SAC"]
        if len(obspy_only) >= 2:
            opts2 = dict(start)
            try:
                out = hvsrpy.read([s_["fnames"] for s_ in obspy_only], obspy_read_kwargs=opts2)
            except Exception as exc:
                ctx.check(False, "reads-valid-files", f"read() raised on valid SAC sets of mixed byte order sharing one options dict: {exc!r}",
                          mechanism="options-dict-carries-state-between-reads", **info)
            else:
                ctx.check(True, "reads-valid-files")
                for i, (rec, s_) in enumerate(zip(out, obspy_only)):
                    judge(ctx, rec, s_["exp"], None, info, f"recording {i} of read() with one options dict ({s_['fmt']})")
    ctx.nontrivial(["options-reused", [s_["fmt"] for s_ in seq], sorted(start)])
    ctx.state(["options-reused", tuple(s_["fmt"] for s_ in seq)])


# --------------------------------------------------------------------------------------------------
# the real example files
# --------------------------------------------------------------------------------------------------

def by_suffix(back):
    m = {}
    for ch, x, delta in back:
        m.setdefault(ch[-1:].upper(), []).append((x, delta))
    return m


def example_sets():
    e = EXAMPLES
    return [
        ("mseed_combined", "MSEED", [f"{e}/mseed_combined/ut.stn11.a2_c50.mseed"]),
        ("mseed_individual", "MSEED", [f"{e}/mseed_individual/ut.stn11.a2_c50_bh{c}.mseed" for c in "zne"]),
        ("sac_big_endian", "SAC", [f"{e}/sac_big_endian/ut.stn11.a2_c50_{c}.sac" for c in "zne"]),
        ("sac_little_endian", "SAC", [f"{e}/sac_little_endian/ut.stn11.a2_c50_{c}.sac" for c in "zne"]),
        ("gcf", "GCF", [f"{e}/gcf/sample.gcf"]),
        ("saf", None, [f"{e}/saf/mt_20211122_133110.saf"]),
        ("peer", None, [f"{e}/peer/rsn942_northr_alh{c}.vt2" for c in ("-up", "360", "090")]),
        ("minishark", None, [f"{e}/minishark/0003_181115_0441.minishark"]),
    ]


def fam_examples(ctx, rng):
    sets = example_sets()
    name, ofmt, files = sets[int(rng.integers(0, len(sets)))]
    deg = pick_degrees(rng, p_none=0.6)
    kw = pick_kwargs(rng, ofmt)
    CUR["fmt"] = "example:" + name
    info = dict(fmt="example:" + name, files=[os.path.basename(f) for f in files])
    ctx.describe(**info, explicit_degrees=deg, reader_options=kw)
    missing = [f for f in files if not os.path.exists(f)]
    if missing:
        ctx.count("example_files_missing")
        return
    ctx.count("file_sets:example:" + name)
    if name == "minishark":
        if os.path.getsize(files[0]) == 0:
            expect_refusal(ctx, files[0], "file", "the (empty) MiniShark example of this checkout", info)
            ctx.nontrivial(["example", name])
        else:
            ctx.count("minishark_example_not_empty_not_judged")
        return
    if ofmt is not None:
        back = []
        for f in files:
            back.extend(FF.obspy_readback(f, ofmt))
        m = by_suffix(back)
        if sorted(m) != ["E", "N", "Z"] or any(len(v) != 1 for v in m.values()) or len({v[0][1] for v in m.values()}) != 1:
            ctx.count("example_not_three_components_through_obspy")
            return
        exp = expected([m["N"][0][0]], [m["E"][0][0]], [m["Z"][0][0]], m["N"][0][1], 0.0)
        ctx.count("example_samples_cross_checked", 3 * int(exp["ns"][0].size))
    elif name == "saf":
        p = FF.parse_saf(files[0])
        if p["data"].shape != (p["ndat"], 3) or sorted(p["ids"]) != ["E", "N", "V"]:
            ctx.count("example_not_parsed_independently")
            return
        col = {k: p["data"][:, v] for k, v in p["ids"].items()}
        rot = p["north_rot"] or 0.0
        file_deg = rot if p["ids"]["N"] == 1 else (rot + 90.0 if p["ids"]["E"] == 1 else None)
        exp = int_text_expected({"vt": col["V"], "ns": col["N"], "ew": col["E"]}, 1.0 / p["fs"], file_deg)
        ctx.count("example_samples_cross_checked", 3 * int(p["ndat"]))
    else:
        ps = [FF.parse_peer(f) for f in files]
        if any(q["npts"] != q["data"].size for q in ps) or [q["code"].lstrip("0") for q in ps] != ["UP", "360", "90"] \
                or len({q["dt"] for q in ps}) != 1:
            ctx.count("example_not_parsed_independently")
            return
        keep = min(q["npts"] for q in ps)
        exp = expected([ps[1]["data"][:keep]], [ps[2]["data"][:keep]], [ps[0]["data"][:keep]], ps[0]["dt"], 0.0)
        ctx.count("example_samples_cross_checked", 3 * keep)
    snaps = []
    if len(files) == 1:
        snaps.append(("single", read_and_judge(ctx, maybe_path(rng, files[0]), kw, deg, exp, info, "single file")))
    else:
        for order in itertools.permutations(range(3)):
            lab = "files in list order " + "".join(str(i) for i in order)
            snaps.append((lab, read_and_judge(ctx, [files[i] for i in order], kw, deg, exp, info, lab)))
        check_orders(ctx, snaps, info)
    ctx.nontrivial(["example", name, deg is None, kw is None])
    ctx.state(["example", name])


FAMILIES = [("mseed-one-file", fam_mseed_one), ("mseed-three-files", fam_mseed_three), ("sac", fam_sac), ("gcf", fam_gcf),
            ("saf", fam_saf), ("minishark", fam_minishark), ("peer", fam_peer), ("corrupted", fam_corrupted),
            ("read-routing", fam_read), ("examples", fam_examples),
            ("options-dict-reused-across-reads", fam_options_reused)]
