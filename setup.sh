#!/bin/bash
# Offline setup: contract libraries beside the repository's interpreter, cache dirs.
HERE="$(cd "$(dirname "${BASH_SOURCE[0]}")" && pwd)"
cd "$HERE"
mkdir -p .cache/numba .cache/mpl evidence/replay
if [ ! -d .deps/icontract ]; then
  /venv/bin/pip install -q --no-index --find-links /opt/veriftools/wheels --target .deps icontract deal >/dev/null 2>&1 \
    || echo "WARN: icontract/deal not installed (checks fall back to plain hooks)"
fi
exit 0
