#!/usr/bin/env python3
"""Regenerate /verif/MANIFEST.json from the monitor modules that exist (run with /venv/bin/python)."""
import importlib, json, os, sys
HERE = os.path.dirname(os.path.dirname(os.path.abspath(__file__)))
sys.path.insert(0, HERE)
props = [json.loads(l) for l in open(os.path.join(HERE, "properties.jsonl"))]
BASELINE = ("cd /repo && env -u HVSRPY_VERIF /venv/bin/python -m pytest -ra -q -p no:cacheprovider --timeout=900 "
            "--continue-on-collection-errors")
checks, na = [], []
for p in props:
    pid = p["id"]
    path = os.path.join(HERE, "hvmon", "monitors", pid + ".py")
    if not os.path.exists(path):
        na.append({"property_id": pid, "reason": "monitor not built yet (planned, see DESIGN.md section 3)"})
        continue
    src = open(path).read()
    ns = {}
    # read the declarative constants without importing hvsrpy
    import ast
    tree = ast.parse(src)
    for node in tree.body:
        if isinstance(node, ast.Assign) and len(node.targets) == 1 and isinstance(node.targets[0], ast.Name) \
                and node.targets[0].id in ("RULE", "ASSUMPTIONS", "TECHNIQUE", "LEVEL_TEXT", "LEVEL_NOTE", "NOT_REACHED"):
            ns[node.targets[0].id] = ast.literal_eval(node.value)
    checks.append({
        "property_id": pid,
        "quick_cmd": f"./check {pid} quick",
        "thorough_cmd": f"./check {pid} thorough",
        "evidence_file": f"/verif/evidence/{pid}.json",
        "replay_cmd_template": f"./check {pid} --replay {{path}}",
        "engine": "hvmon",
        "level_claimed": {
            "category": "exploration",
            "text": ns.get("LEVEL_TEXT", "Runtime monitoring: the real hvsrpy code is executed on seeded generated, hostile and realistic "
                    "workloads while probes at its API boundary record events and deterministic oracles (independent reference "
                    "models, closed forms, metamorphic relations, bit-exact snapshots) judge every execution. The verdict is "
                    "'held on the executions observed'; the evidence file lists what was observed."),
            "design_ref": f"DESIGN.md section 3, {pid}",
        },
        "level_note": ns.get("LEVEL_NOTE", "; ".join(ns.get("ASSUMPTIONS", []))[:1500] or "numpy/scipy trusted"),
        "technique": ns.get("TECHNIQUE", "runtime monitoring: API-boundary probes + reference-model / metamorphic oracles over generated workloads"),
    })
manifest = {
    "version": 1,
    "setup_cmd": "bash ./setup.sh",
    "hooks": {
        "guard": "HVSRPY_VERIF",
        "enable": "no source hooks: instrumentation is applied from /verif at run time (monkeypatched probes; the CLI is "
                  "started through hvmon/cli/launcher.py, which wraps cli._process_hvsr only when HVSRPY_VERIF=1 - forked "
                  "Pool workers inherit the wrapper)",
        "baseline_off_cmd": BASELINE,
        "source_commits": [],
        "add_only": True,
    },
    "engines": [{"name": "hvmon", "path": "/verif/hvmon", "serves_properties": [c["property_id"] for c in checks],
                 "kind_free_text": "runtime monitors (probes, reference models, offline trace checkers) driven by seeded workloads in shard subprocesses"}],
    "checks": checks,
    "not_applicable": na,
    "notes": "Entry point ./check <id> <quick|thorough> [--replay file]; exit 0 held / 1 violation / 2 inconclusive. "
             "Known findings: /verif/known_findings.json. VERIF_SEED selects the workload seed.",
}
json.dump(manifest, open(os.path.join(HERE, "MANIFEST.json"), "w"), indent=1)
print(len(checks), "checks,", len(na), "not applicable")
