#!/bin/bash
# usage: tools/triage.sh <dir> <Cxx> [more checks]  -- validate a seeded change and run the checks against it
d="$1"; shift
echo "== $d: $(grep '^diff --git' $d/patch.diff | awk '{print $3}' | tr '\n' ' ')"
MPLBACKEND=Agg tools/validate_seeded.sh $d 2>&1 | head -1
tools/try_patch.sh $d/patch.diff "$@" | grep -E "rc=|kinds|PATCH"
