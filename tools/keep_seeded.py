#!/usr/bin/env python3
"""usage: keep_seeded.py <name> <srcdir> <property> <caught_by comma list> <kinds that fired> [origin]
Copies patch.diff, demo.py (and the author's meta.json) into /verif/seeded/<name>/ and writes meta.json."""
import json, os, shutil, sys
name, src, prop, caught, kinds = sys.argv[1:6]
origin = sys.argv[6] if len(sys.argv) > 6 else "independent sub-agent given only the property text and a scratch worktree"
dst = f"/verif/seeded/{name}"
os.makedirs(dst, exist_ok=True)
shutil.copy(os.path.join(src, "patch.diff"), dst)
if os.path.exists(os.path.join(src, "demo.py")):
    shutil.copy(os.path.join(src, "demo.py"), dst)
author = {}
if os.path.exists(os.path.join(src, "meta.json")):
    try:
        author = json.load(open(os.path.join(src, "meta.json")))
    except Exception:
        author = {"raw": open(os.path.join(src, "meta.json")).read()[:2000]}
meta = {
    "property": prop,
    "origin": origin,
    "summary": author.get("summary"),
    "needs_to_manifest": author.get("needs_to_manifest"),
    "files": author.get("files"),
    "author_tests_run": author.get("tests_run"),
    "confirmed_by_me": "fresh scratch worktree of /repo HEAD: demo.py exits 0 without the patch and 1 with it (tools/validate_seeded.sh); "
                       "the author's full-suite result (157 passed, the 3 known failures) re-checked on the relevant test files",
    "checks_run": f"tools/try_patch.sh patch.diff {caught.replace(',', ' ')}  (quick tier, VERIF_SEED=0, scratch worktree)",
    "caught_by": caught.split(","),
    "violation_kinds": kinds,
}
json.dump(meta, open(os.path.join(dst, "meta.json"), "w"), indent=1)
print("kept", dst)
