#!/usr/bin/env python3
"""Mutation campaign: generate single-site source mutants of hvsrpy files, run the relevant quick checks against each in a
scratch worktree (never /repo), report survivors.

usage: mutate.py <file under hvsrpy/> [--max N] [--seed S] [--jobs J] [--out results.jsonl]
A survivor is either an equivalent mutant or a detection gap - read it before drawing conclusions.
"""
import argparse, ast, concurrent.futures, io, json, os, random, re, subprocess, sys, tempfile, tokenize

HERE = os.path.dirname(os.path.dirname(os.path.abspath(__file__)))
CHECKS = {
    "processing.py": ["C01", "C03", "C09", "C17"], "smoothing.py": ["C02", "C01"], "timeseries.py": ["C10", "C18", "C01"],
    "seismic_recording_3c.py": ["C04", "C18", "C10"], "hvsr_curve.py": ["C08", "C16"], "hvsr_traditional.py": ["C05", "C08", "C06"],
    "hvsr_azimuthal.py": ["C11", "C08", "C12"], "statistics.py": ["C05", "C11"], "window_rejection.py": ["C06", "C13"],
    "object_io.py": ["C12", "C15"], "settings.py": ["C15"], "sesame.py": ["C16"], "hvsr_spatial.py": ["C14"],
    "data_wrangler.py": ["C07"], "preprocessing.py": ["C10", "C17", "C04"], "instrument_response.py": ["C17"],
    "cli.py": ["C19"], "postprocessing.py": ["C20"], "hvsr_diffuse_field.py": ["C08", "C12"], "regex.py": ["C07", "C12"],
    "psd.py": ["C17"], "constants.py": ["C05"],
}
OPS = [
    (r"<=", "<"), (r"(?<![<>=!])<(?![<=])", "<="), (r">=", ">"), (r"(?<![<>=!-])>(?![>=])", ">="), (r"==", "!="), (r"!=", "=="),
    (r" \+ ", " - "), (r" - ", " + "), (r"(?<![*])\*(?![*=])", "/"), (r"(?<![/])/(?![/=])", "*"),
    (r"\band\b", "or"), (r"\bor\b", "and"), (r"\bTrue\b", "False"), (r"\bFalse\b", "True"),
    (r"\bargmin\b", "argmax"), (r"\bargmax\b", "argmin"), (r"\bnp\.min\b", "np.max"), (r"\bnp\.max\b", "np.min"),
    (r"\bnp\.sin\b", "np.cos"), (r"\bnp\.cos\b", "np.sin"), (r"\bnp\.log\b", "np.log10"), (r"\bnp\.exp\b", "np.exp2"),
    (r"\bnp\.sqrt\(", "np.abs("), (r"\babs\(", "("), (r"\bns\b", "ew"), (r"\bew\b", "ns"), (r"\+1\b", "+2"), (r"-1\b", "-2"),
    (r"\bnot ", ""), (r"\[1:", "[0:"), (r"\[:-1\]", "[:]"), (r"\b0\.5\b", "0.6"), (r"\b2\b", "3"), (r"\b1\b", "2"), (r"\b0\b", "1"),
    (r"\bcontinue\b", "pass"), (r"\bbreak\b", "pass"), (r"axis=0", "axis=-1"), (r"ddof=1", "ddof=0"), (r"\.copy\(\)", ""),
    (r"np\.array\(", "np.asarray("), (r"deepcopy\(", "("), (r"\bnansum\b", "sum"), (r"\.T\b", ""),
]


def code_lines(src):
    """line numbers (1-based) that hold executable code inside function bodies, excluding docstrings."""
    tree = ast.parse(src)
    doc = set()
    body_lines = set()
    for node in ast.walk(tree):
        if isinstance(node, (ast.FunctionDef, ast.AsyncFunctionDef)):
            for st in node.body:
                for n in ast.walk(st):
                    if hasattr(n, "lineno"):
                        body_lines.update(range(n.lineno, getattr(n, "end_lineno", n.lineno) + 1))
        if isinstance(node, (ast.FunctionDef, ast.ClassDef, ast.Module)) and node.body:
            b = node.body[0]
            if isinstance(b, ast.Expr) and isinstance(getattr(b, "value", None), ast.Constant) and isinstance(b.value.value, str):
                doc.update(range(b.lineno, b.end_lineno + 1))
    return sorted(body_lines - doc)


def string_spans(src):
    spans = {}
    for tok in tokenize.generate_tokens(io.StringIO(src).readline):
        if tok.type in (tokenize.STRING, tokenize.COMMENT) or tok.type == getattr(tokenize, "FSTRING_MIDDLE", -1):
            for ln in range(tok.start[0], tok.end[0] + 1):
                a = tok.start[1] if ln == tok.start[0] else 0
                b = tok.end[1] if ln == tok.end[0] else 10 ** 6
                spans.setdefault(ln, []).append((a, b))
    return spans


def candidates(src):
    lines = src.split("\n")
    spans = string_spans(src)
    out = []
    for ln in code_lines(src):
        text = lines[ln - 1]
        if text.strip().startswith(("msg", "raise", "logger", "print", "warnings", "import", "from ", "@", "def ", "class ")):
            continue
        for pat, rep in OPS:
            for m in re.finditer(pat, text):
                if any(a <= m.start() < b for a, b in spans.get(ln, [])):
                    continue
                new = text[:m.start()] + rep + text[m.end():]
                if new != text:
                    out.append((ln, pat, text, new))
    return out


def run_mutant(i, rel, ln, old, new, checks, seed):
    wt = tempfile.mkdtemp(prefix="hvmon-mut-")
    os.rmdir(wt)
    subprocess.run(["git", "-C", "/repo", "worktree", "add", "-q", "--detach", wt, "HEAD"], check=True)
    res = {"i": i, "file": rel, "line": ln, "old": old.strip(), "new": new.strip(), "checks": {}}
    try:
        p = os.path.join(wt, rel)
        lines = open(p).read().split("\n")
        assert lines[ln - 1] == old
        lines[ln - 1] = new
        open(p, "w").write("\n".join(lines))
        try:
            compile(open(p).read(), p, "exec")
        except SyntaxError:
            res["syntax_error"] = True
            return res
        evd = tempfile.mkdtemp(prefix="hvmon-mut-evid-")
        env = dict(os.environ, HVMON_REPO=wt, PYTHONPATH=wt, NUMBA_CACHE_DIR=os.path.join(wt, ".nbcache"),
                   HVMON_EVIDENCE_DIR=evd, VERIF_SEED=str(seed), HVMON_SHARDS="2")
        for c in checks:
            r = subprocess.run([os.path.join(HERE, "check"), c, "quick"], env=env, capture_output=True, text=True, cwd=HERE)
            kinds = re.findall(r"violation kinds: (\{.*\})", r.stdout)
            res["checks"][c] = {"rc": r.returncode, "kinds": kinds[0][:200] if kinds else ""}
            if r.returncode != 0:
                break          # killed
        subprocess.run(["rm", "-rf", evd])
    finally:
        subprocess.run(["git", "-C", "/repo", "worktree", "remove", "--force", wt])
    res["killed"] = any(v["rc"] != 0 for v in res["checks"].values())
    return res


def main():
    ap = argparse.ArgumentParser()
    ap.add_argument("file")
    ap.add_argument("--max", type=int, default=40)
    ap.add_argument("--seed", type=int, default=0)
    ap.add_argument("--jobs", type=int, default=4)
    ap.add_argument("--out", default=None)
    a = ap.parse_args()
    rel = os.path.join("hvsrpy", os.path.basename(a.file))
    src = open(os.path.join("/repo", rel)).read()
    cands = candidates(src)
    random.Random(a.seed).shuffle(cands)
    # at most 2 mutants per line, spread over the file
    per, chosen = {}, []
    for c in cands:
        if per.get(c[0], 0) < 2:
            per[c[0]] = per.get(c[0], 0) + 1
            chosen.append(c)
        if len(chosen) >= a.max:
            break
    checks = CHECKS[os.path.basename(a.file)]
    out = a.out or f"/tmp/mutation-{os.path.basename(a.file)}.jsonl"
    print(f"{rel}: {len(cands)} candidate mutants, running {len(chosen)} against {checks}", flush=True)
    with concurrent.futures.ThreadPoolExecutor(a.jobs) as ex, open(out, "w") as fh:
        futs = [ex.submit(run_mutant, i, rel, ln, old, new, checks, a.seed) for i, (ln, pat, old, new) in enumerate(chosen)]
        for f in concurrent.futures.as_completed(futs):
            r = f.result()
            fh.write(json.dumps(r) + "\n")
            fh.flush()
            tag = "syntax" if r.get("syntax_error") else ("killed " if r["killed"] else "SURVIVED")
            print(f"{tag} L{r['line']}: {r['old'][:70]!r} -> {r['new'][:70]!r} {[(c, v['rc']) for c, v in r['checks'].items()]}", flush=True)


if __name__ == "__main__":
    main()
