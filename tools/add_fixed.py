#!/usr/bin/env python3
"""usage: add_fixed.py <id> <property> <commit> <kind> <what failed>"""
import json, sys
p = '/verif/known_findings.json'
d = json.load(open(p))
fid, prop, commit, kind, what = sys.argv[1:6]
d['findings'] = [f for f in d['findings'] if f['id'] != fid]
d['findings'].append({"id": fid, "property": prop, "status": "fixed", "kind": kind,
                      "fixed": f"fixed: property={prop} {commit} {what}", "what": what})
json.dump(d, open(p, 'w'), indent=1)
