#!/bin/bash
# usage: tools/try_patch.sh <patch.diff> <check id>...   -- apply a patch to a fresh scratch worktree of /repo HEAD,
# run the quick tier of the given checks against it, remove the worktree. Evidence and replay files of the drill go to a
# scratch directory (HVMON_EVIDENCE_DIR), never to /verif/evidence.
patch="$(readlink -f "$1")"; shift
cd "$(dirname "$0")/.."
wt=$(mktemp -d /tmp/hvmon-wt-XXXXXX); rmdir "$wt"
git -C /repo worktree add -q --detach "$wt" HEAD || exit 3
( cd "$wt" && git apply "$patch" ) || { echo "PATCH DOES NOT APPLY"; git -C /repo worktree remove --force "$wt"; exit 3; }
evd=$(mktemp -d /tmp/hvmon-drill-evid-XXXXXX)
for c in "$@"; do
  out=$(HVMON_EVIDENCE_DIR="$evd" tools/with_tree.sh "$wt" "$c" ${TIER:-quick} 2>&1); rc=$?
  echo "[$c rc=$rc] $(echo "$out" | grep -E "^$c " | head -1)"
  echo "$out" | grep -E "kinds|first:|INCONCLUSIVE" | head -3
done
[ -n "$KEEP_EVID" ] && echo "drill evidence kept in $evd" || rm -rf "$evd"
git -C /repo worktree remove --force "$wt"
