#!/bin/bash
# usage: tools/try_patch.sh <patch.diff> <check id>...   -- apply a patch to a fresh scratch worktree of /repo HEAD,
# run the quick tier of the given checks against it, remove the worktree. Evidence files are restored afterwards.
patch="$(readlink -f "$1")"; shift
cd "$(dirname "$0")/.."
wt=$(mktemp -d /tmp/hvmon-wt-XXXXXX); rmdir "$wt"
git -C /repo worktree add -q --detach "$wt" HEAD || exit 3
( cd "$wt" && git apply "$patch" ) || { echo "PATCH DOES NOT APPLY"; git -C /repo worktree remove --force "$wt"; exit 3; }
mkdir -p /tmp/hvmon-evid-bak && cp -a evidence/*.json /tmp/hvmon-evid-bak/ 2>/dev/null
for c in "$@"; do
  out=$(tools/with_tree.sh "$wt" "$c" ${TIER:-quick} 2>&1); rc=$?
  echo "[$c rc=$rc] $(echo "$out" | grep -E "^$c " | head -1)"
  echo "$out" | grep -E "kinds|first:|INCONCLUSIVE" | head -3
done
cp -a /tmp/hvmon-evid-bak/*.json evidence/ 2>/dev/null; rm -rf /tmp/hvmon-evid-bak
git -C /repo worktree remove --force "$wt"
