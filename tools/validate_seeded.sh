#!/bin/bash
# usage: tools/validate_seeded.sh <dir with patch.diff demo.py> [pytest args...]
# Confirms in a fresh scratch worktree: demo passes without the patch, fails with it; given tests pass with it.
src="$(readlink -f "$1")"; shift
wt=$(mktemp -d /tmp/hvmon-val-XXXXXX); rmdir "$wt"
git -C /repo worktree add -q --detach "$wt" HEAD || exit 3
cd "$wt"
cp "$src/demo.py" "$wt/_seed_demo.py"
PYTHONPATH="$wt" /venv/bin/python -W ignore "$wt/_seed_demo.py" >/tmp/demo_clean.out 2>&1; rc0=$?
git apply "$src/patch.diff" || { echo "PATCH DOES NOT APPLY"; cd /; git -C /repo worktree remove --force "$wt"; exit 3; }
PYTHONPATH="$wt" /venv/bin/python -W ignore "$wt/_seed_demo.py" >/tmp/demo_mut.out 2>&1; rc1=$?
echo "demo: unchanged rc=$rc0, patched rc=$rc1"
tail -3 /tmp/demo_mut.out
if [ $# -gt 0 ]; then
  PYTHONPATH="$wt" /venv/bin/python -m pytest -q -p no:cacheprovider --timeout=900 "$@" 2>&1 | tail -4
fi
cd /; git -C /repo worktree remove --force "$wt"
