#!/bin/bash
# usage: [ONLY=<regex on seeded/<name>/>] tools/seeded_matrix.sh [seed] [parallel jobs]   -- run every seeded change against the checks named in its
# meta.json (quick tier, scratch worktree each) and print one line per (change, check): caught / MISSED.  Entries whose
# meta says caught_by [] (not judged by design) are listed as such and not run.
cd "$(dirname "$0")/.."
export VERIF_SEED="${1:-0}"
jobs="${2:-3}"
one() {
  d="$1"; name=$(basename "$d")
  checks=$(python3 -c "import json;print(' '.join(json.load(open('$d/meta.json'))['caught_by']))")
  if [ -z "$checks" ]; then echo "$name - not-judged-by-design"; return; fi
  out=$(tools/try_patch.sh "$d/patch.diff" $checks 2>&1)
  echo "$out" | grep -E "^\[C[0-9]+ rc=" | while read -r line; do
    c=$(echo "$line" | sed -E 's/^\[(C[0-9]+) rc=([0-9]+)\].*/\1/'); rc=$(echo "$line" | sed -E 's/^\[(C[0-9]+) rc=([0-9]+)\].*/\2/')
    if [ "$rc" = "1" ]; then echo "$name $c caught"; else echo "$name $c MISSED(rc=$rc)"; fi
  done
  echo "$out" | grep -q "PATCH DOES NOT APPLY" && echo "$name PATCH-DOES-NOT-APPLY"
}
export -f one
ls -d seeded/*/ | grep -E "${ONLY:-.}" | xargs -P "$jobs" -I{} bash -c 'one {}'
