#!/bin/bash
# usage: tools/sweep.sh <quick|thorough> "<seeds>" [checks...]   -- runs checks, prints one summary line each
cd "$(dirname "$0")/.."
tier="$1"; seeds="$2"; shift 2
checks="$@"
[ -z "$checks" ] && checks=$(ls hvmon/monitors | grep -E '^C[0-9]+\.py$' | sed 's/\.py//')
bash ./setup.sh
for s in $seeds; do
  for c in $checks; do
    out=$(VERIF_SEED=$s ./check $c $tier 2>&1); rc=$?
    echo "seed=$s rc=$rc $(echo "$out" | grep -E "^$c " | head -1)"
    [ $rc -ne 0 ] && echo "$out" | grep -E "VIOLATION|INCONCLUSIVE|first:|kinds" | head -6
  done
done
exit 0   # the summary lines carry each run's rc; the sweep itself always succeeds
