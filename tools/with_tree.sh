#!/bin/bash
# usage: tools/with_tree.sh <tree> <check id> [quick|thorough]   -- run a check against a scratch copy of the repository
# (outside /repo and /verif) instead of /repo itself; used for drills so that /repo is never disturbed.
tree="$(cd "$1" && pwd)"; shift
cd "$(dirname "$0")/.."
HVMON_REPO="$tree" PYTHONPATH="$tree" NUMBA_CACHE_DIR="$tree/.nbcache" ./check "$@"
